# stdin: lines "a\tb"; stdout: sign of packaging.version comparison, E when packaging rejects either side
import sys
from packaging.version import Version, InvalidVersion
out = []
for l in sys.stdin.read().split("\n"):
    if not l: continue
    a, b = l.split("\t")
    try:
        x, y = Version(a), Version(b)
        out.append(str((x > y) - (x < y)))
    except InvalidVersion:
        out.append("E")
print("\n".join(out))
