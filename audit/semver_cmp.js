// stdin: lines "a\tb"; stdout: sign of node-semver compare, or E when node-semver rejects either side
const semver = require('/usr/lib/node_modules/npm/node_modules/semver');
const lines = require('fs').readFileSync(0, 'utf8').split('\n');
const out = [];
for (const l of lines) {
  if (l === '') continue;
  const [a, b] = l.split('\t');
  try {
    const x = new semver.SemVer(a), y = new semver.SemVer(b);
    out.push(String(x.compare(y)));
  } catch (e) { out.push('E'); }
}
console.log(out.join('\n'));
