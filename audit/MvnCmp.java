import org.apache.maven.artifact.versioning.ComparableVersion;
import java.io.*;
// stdin: lines "a\tb"; stdout: sign of new ComparableVersion(a).compareTo(new ComparableVersion(b))
public class MvnCmp {
  public static void main(String[] args) throws Exception {
    BufferedReader r = new BufferedReader(new InputStreamReader(System.in));
    PrintWriter w = new PrintWriter(new BufferedWriter(new OutputStreamWriter(System.out)));
    String l;
    while ((l = r.readLine()) != null) {
      String[] p = l.split("\t", -1);
      int c = new ComparableVersion(p[0]).compareTo(new ComparableVersion(p[1]));
      w.println(Integer.signum(c));
    }
    w.flush();
  }
}
