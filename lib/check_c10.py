"""C10 — Debian orders as dpkg --compare-versions (reference: spec/Dpkg.tla)."""
import refcheck, re

def seeded(U, rnd, quick):
    alphabet = "0019aZz.+~-"
    jobs = []
    for r in range(3 if quick else 30):
        texts = set()
        while len(texts) < 120:
            n = rnd.randint(1, 7)
            s = rnd.choice("0123456789") + "".join(rnd.choice(alphabet) for _ in range(n))
            if rnd.random() < 0.3: s = rnd.choice(["0:", "1:", "2:"]) + s
            if rnd.random() < 0.3: s += "-" + "".join(rnd.choice("019a.+~") for _ in range(rnd.randint(1, 3)))
            if rnd.random() < 0.15: s = re.sub(r"\d", lambda m: m.group(0) * rnd.choice([1, 1, 21]), s, count=1)
            if rnd.random() < 0.12: s = re.sub(r"\d+", lambda m: rnd.choice(["18446744073709551616", "00018446744073709551616", "0018446744073709551617", "98446744073709551616", "018446744073709551615"]), s, count=1)
            texts.add(s)
        jobs.append({"k": "matrix", "eco": "debian", "tag": "seeded", "texts": sorted(texts), "part": []})
    return jobs

def check(run):
    import vlib
    # design level: dpkg's two-cursor machine terminates and agrees with the recursive operator on every pair
    L = 2 if run.tier == "quick" else 3
    cfg = vlib.cfg_consts(DAlphabet={48, 49, 57, 97, 46, 43, 126, 45}, DMaxLen=L) + \
        "SPECIFICATION DMSpec\nINVARIANT MachineAgreesWithRecursion\nINVARIANT CursorsInRange\nPROPERTY Terminates\nCHECK_DEADLOCK FALSE\n"
    vlib.tlc(run, "MC_Dpkg", cfg, workers=8, timeout=2400, heap="8g", coverage=True)
    run.extra["dpkg_machine_max_string_length"] = L
    return refcheck.run_ref(run, "C10", ["debian"], (1050, 4000), seeded_fn=seeded,
        rule="pairs of in-scope (dpkg-valid) members within blocks of <=350 members of the TLC-generated universe + seeded character-level strings; each pair judged by Dpkg.tla",
        assumptions=["Dpkg.tla is a faithful transcription of dpkg's verrevcmp (audited against /usr/bin/dpkg by `vcheck audit C10`)"])
