#!/usr/bin/env python3
"""Regenerates MANIFEST.json from the table below (single source of truth)."""
import json, os
V = os.path.dirname(os.path.dirname(os.path.abspath(__file__)))
props = [json.loads(l) for l in open(os.path.join(V, "properties.jsonl"))]
CLAIMED = {
 "C01": dict(
   technique="TLC-explored grammar-automaton and small-scope token-sequence universes -> real NxN Compare matrices -> TLC trace validation with the rank criterion (RankExplains <=> total preorder, model-checked lemma)",
   text="Model checking of the order model (Order.tla: RankExplains <=> TotalPreorder checked by TLC for every 3x3 observation matrix) bound to the code by trace validation: TLC enumerates bounded universes of version texts per ecosystem (Universe.tla), the harness records the complete Compare matrix of the real code over every member, and TLC (UniversTrace.tla) decides whether one hidden rank per version explains every observed sign. Exhaustive over all pairs/triples of the universes in the thorough tier; seeded universes beyond the alphabet in both tiers.",
   note="Trusted: TLC, the JSON trace logger of the harness (observes only the public API). Covered texts: Universe.tla members, every token sequence of length <= 2 (quick) / 3 (thorough) after a stem (Tokens.tla) that the parser accepts, seeded mutations (magnitudes, zero spellings, letter case) and strings sampled from the parsers' regular expressions; the rank lemma is model-checked by TLC for all 3x3 matrices on every run and established by Apalache for all 4x4 matrices in the thorough tier; alpm judged within pkgrel partitions.",
   ref="DESIGN.md 5-C01"),
 "C10": dict(
   technique="dpkg verrevcmp transcribed in TLA+ (Dpkg.tla) as the oracle; TLC-generated universe replayed into debian.Compare; TLC judges every in-scope pair; spec audited against /usr/bin/dpkg",
   text="The reference algorithm is an explicit TLA+ operator (Dpkg.tla: epoch/upstream/revision split + verrevcmp) whose stated facts are ASSUMEs checked by TLC; TLC enumerates the bounded Debian universe (Universe.tla), the harness records the real Compare matrix, and TLC (UniversTrace.tla, MatrixRef) compares every pair of dpkg-valid members with the reference sign. Seeded character-level strings extend beyond the alphabet.",
   note="Trusted: TLC; Dpkg.tla as a transcription of dpkg (0 disagreements with /usr/bin/dpkg 1.21.22 on ~5.6k pairs via `bin/vcheck audit C10`); pairs are judged within blocks of <=350 members.",
   ref="DESIGN.md 5-C10"),
 "C11": dict(
   technique="rpmvercmp transcribed in TLA+ (Rpm.tla, rpm's rpmvercmp.at table as ASSUMEs) as the oracle; universe replay + TLC trace validation; recorded deviation recognised by an implementation model",
   text="Rpm.tla holds rpmvercmp and the E:V-R comparison; rpm's published test table is evaluated by TLC on every run. The real rpm.Compare matrix over the TLC-generated universe and seeded strings is judged pair by pair by TLC. The tree's known deviation (KF-rpm-01, pinned by the repository's tests) is recognised only when the TLA+ implementation model predicts exactly the observed wrong sign; any other disagreement is a violation.",
   note="Trusted: TLC; Rpm.tla audited only against rpm's published table (no executable rpm on this image); releases for which 'missing release = empty string' differs from rpm's rule are out of scope.",
   ref="DESIGN.md 5-C11"),
 "C12": dict(
   technique="Maven ComparableVersion (3.8.7) transcribed in TLA+ (MavenCV.tla) as the oracle; universe replay + TLC trace validation; spec audited against maven-artifact-3.x.jar",
   text="MavenCV.tla builds Maven's nested item lists and compares them exactly as ComparableVersion does; TLC judges the real maven.Compare matrix on every pair of conventionally shaped members (MvInScope) of the TLC-generated universe and of seeded conventional shapes, claiming a pair only where Maven 3.8.7 and 3.8.1-3.8.6 agree.",
   note="Trusted: TLC; MavenCV.tla (0 disagreements with the 3.8.7 jar on 20000 pairs over the whole universe via `bin/vcheck audit C12`).",
   ref="DESIGN.md 5-C12"),
 "C08": dict(
   technique="SemVer 2.0.0 precedence and grammar transcribed in TLA+ (SemVer.tla) as the oracle; TLC-generated universes of six ecosystems replayed into Compare/NewVersion; TLC trace validation; spec audited against node-semver",
   text="SemVer.tla states section 11 precedence (numeric core, pre-release identifiers: digits-only numerically and below alphanumeric, ASCII order, longer list wins, build ignored) and the BNF of sections 2/9/10; the SemVer.org chain is an ASSUME. TLC judges the real Compare matrices of semver, npm, cargo, hex, golang and nuget over the TLC-generated universes and seeded versions with 1-6 identifiers, Go pseudo-versions by their SemVer spelling, and for the strict semver ecosystem that every accepted generated text is valid SemVer.",
   note="Trusted: TLC; SemVer.tla (0 disagreements with node-semver 7.6.2 on ~22k pairs via `bin/vcheck audit C08`). All-digit identifiers with leading zeros and nuget mixed-case identifiers are out of scope.",
   ref="DESIGN.md 5-C08"),
 "C09": dict(
   technique="packaging's PEP 440 sort key transcribed in TLA+ (Pep440.tla) as the oracle; universe replay + TLC trace validation; spec audited against packaging 26.3; recorded deviation recognised by an implementation model",
   text="Pep440.tla parses the grammar pypi accepts and builds packaging._cmpkey (epoch, release without trailing zeros, pre/post/dev with the -inf/+inf sentinels, local label); TLC judges the real pypi.Compare matrix over the TLC-generated universe (all present/absent segment combinations, spelling variants) and seeded versions. The open finding KF-pypi-01 (local label ignored, pinned by the repository's tests) is recognised only when a local label takes part and the observed sign equals the no-local model's.",
   note="Trusted: TLC; Pep440.tla (0 disagreements with packaging on 30000 pairs via `bin/vcheck audit C09`).",
   ref="DESIGN.md 5-C09"),
 "C13": dict(
   technique="Gem::Version (canonical segments and <=>) transcribed in TLA+ (GemVersion.tla) as the oracle; universe replay + TLC trace validation; RubyGems' test chains as ASSUMEs",
   text="GemVersion.tla implements '-' => '.pre.', segment scanning, canonical segments and position-wise comparison; TLC judges the real gem.Compare matrix on every pair of members that match RubyGems' own version pattern (single letter case) from the TLC-generated universe and seeded versions.",
   note="Trusted: TLC; GemVersion.tla audited only by RubyGems' published test chains (no ruby on this image).",
   ref="DESIGN.md 5-C13"),
 "C14": dict(
   technique="apk-tools version.c token machine transcribed in TLA+ (Apk.tla) plus the property's own reading as a second TLA+ oracle; universe replay + TLC trace validation; spec audited by apk-tools' version.data on every run",
   text="Apk.tla holds next_token/get_token/apk_version_compare as a token machine and, separately, the order the property describes; a pair is claimed when both agree (equal component counts, well-formed grammar, missing revision = -r0). TLC judges the real alpine.Compare matrix over the TLC-generated universe and seeded versions. apk-tools' own 708-line table shipped in the repository is replayed against Apk.tla on every run (disagreement = exit 2).",
   note="Trusted: TLC; Apk.tla (0 disagreements with version.data); pairs where the token machine and the property's reading differ are not claimed. A well-formed text (every number below 10^9) that the parser rejects is reported (in-scope-rejected), as are dpkg-valid texts in C10, texts with a version part in C11 and conventional shapes in C12.",
   ref="DESIGN.md 5-C14"),
 "C02": dict(
   technique="range semantics (Den over AND/OR groups) and per-ecosystem comparator syntax in TLA+ (Range.tla); TLC-explored structure generator (RangeGen.tla) renders range texts; real NewVersionRange/Contains replayed; TLC trace validation contains = Den(signs of real Compare)",
   text="Range.tla states what a comparator range denotes and each ecosystem's operator/alias/AND/OR syntax; TLC enumerates every structure of the generator's catalogue (all single operators x bounds, all ordered operator pairs x AND separators, lower/upper/point triples, OR groups) and renders its text; the harness parses it with the real parser and logs Contains and the signs of the real Compare(probe, bound); TLC decides parsedOk and contains = Den for every probe.",
   note="Trusted: TLC; the oracle is the ecosystem's own Compare (logged in the same event). Bounds/probes are seeded samples of accepted universe members; bounds starting with a comparator or containing a separator character are out of scope; nuget only in list form; maven has no comparator syntax.",
   ref="DESIGN.md 5-C02"),
 "C05": dict(
   technique="table of documented shorthand intervals in TLA+ (Shorthand.tla / ShorthandSem.tla) explored by TLC, boundary probes derived in TLA+; real NewVersionRange/Contains replayed; TLC trace validation contains = Member(probe, documented intervals)",
   text="Shorthand.tla holds, per ecosystem, construct, arity and base, the interval(s) the ecosystem documents (caret, tilde, pessimistic, compatible release, wildcard/x-range, hyphen, brackets, unions), as 4-tuples whose last component is the release level so that npm's '<2.0.0-0' is a bound. TLC explores every row, checks the table's sanity (RowSane), renders the range text and the boundary probes; the harness runs the real parser and Contains; TLC judges every probe. The open finding KF-hex-01 (pinned by the repository's tests) is recognised only when the observed membership is exactly that of the narrower interval.",
   note="Trusted: TLC; my reading of each ecosystem's documentation (cited in the module); probe order = tuple order (bound to Compare by C03/C08/C09). Bases {0,1,2,9}^2 x {0,3,9} (thorough: {0,1,2,9,10,99}^2 x {0,3,9,10}); pre-release bases in a lower-case and an upper-case family; a fourth component (X.Y.Z.65536) as probe where the ecosystem has one; arity-4 bases and interior pre-release probes are not covered.",
   ref="DESIGN.md 5-C05"),
 "C20": dict(
   technique="order-dependence laws (equal versions => equal membership; convexity) as TLA+ predicates over logged observations; range texts from the two TLC generators (RangeGen.tla, Shorthand.tla); TLC trace validation of Compare matrix + membership vectors recorded from the real code",
   text="For every generated range text the real parser accepts (comparator structures of C02, shorthand/bracket/wildcard rows of C05) and a version list chosen to contain many Compare-equal, textually different spellings, the harness logs the real Compare matrix and the membership vector; TLC (MembersC20) checks that equal-comparing versions agree on membership and that ranges without alternatives and exclusions are convex (O(n^2) formulation equivalent to the triple statement). The open finding KF-composer-01 is recognised by its guard (caret range, non-stable version left out).",
   note="Trusted: TLC; versions are seeded samples of the TLC universes; convexity is not claimed across members on which the reference order itself is not a total preorder (alpm irregular separators, maven non-regular shapes, see KF-alpm-01/KF-maven-01); pypi '===' is never generated.",
   ref="DESIGN.md 5-C20"),
 "C03": dict(
   technique="marker/arity tables and a vector generator in TLA+ (Markers.tla) explored by TLC; real NewVersion/Compare replayed; TLC trace validation of every vector",
   text="Markers.tla holds, per ecosystem, the accepted component counts and the pre-/post-release spellings with their documented direction; its generator (explored by TLC) produces one-position differences over the 12x12 boundary values for every arity and position and every marker spelling; the harness runs the real parser and Compare (both directions); TLC judges: plain tuples must be accepted and order as integer tuples, a pre-release marker makes a version older, a post-release marker newer; marker spellings the parser rejects are skipped and listed.",
   note="Trusted: TLC; the marker directions are the ecosystems' documented ones (my reading). github date-shaped tuples are not generated; seeded random tuples up to 2^31 extend the boundary set.",
   ref="DESIGN.md 5-C03"),
 "C04": dict(
   technique="VERS denotation (union of intervals) and the normative sweep as a TLA+ step machine, model-checked by TLC for every well-formed range and probe position (sweep = Den); the same exploration emits the ranges, rendered from strictly increasing version chains of 11 schemes and evaluated by the real vers.Contains; TLC trace validation result = Den",
   text="Design level: Vers.tla walks the position-sorted constraints as a state machine; TLC checks SweepIsDen and SingleIsComparator over all well-formed ranges with up to K constraints (K=4 quick, K=6 thorough: 1.8M states) and every probe position. Conformance: every explored range, rendered per scheme from 17-version chains whose strict monotonicity under the real Compare is re-checked on each run (else exit 2), is evaluated at every probe position by the real vers.Contains; TLC judges no error and result = VDen; vers:<scheme>/* contains everything; pypi pre-/dev-release probes are excluded.",
   note="Trusted: TLC; bound/probe versions are three families of chains in Vers.tla (plain; other spellings - build metadata, prefixes, epochs, case, pypi pre-releases and local labels; anchored at the zero version with free-form pre-release words), other versions: C02/C17; K=8 only by seeded sampling in the thorough tier.",
   ref="DESIGN.md 5-C04"),
 "C06": dict(
   technique="life-cycle contract in TLA+ (Api.tla, model-checked) and a TLC-explored string-builder machine over a syntax alphabet (Totality.tla) as exhaustive input generator; every string replayed into all 40 parsers, vers.Contains in every role and the real CLI; TLC trace validation of the outcome codes and the quadratic time budget",
   text="Api.tla states that a constructor call has exactly two outcomes and that observers return; TLC explores all byte strings up to length L (3 quick, 4 thorough) over a 20-byte alphabet (digits, letters, every separator/operator/bracket, space, NUL, 0xFF, a multi-byte rune start) plus long-run families up to 100k bytes; the harness logs one outcome code per entry point, observes accepted values, and measures the slowest call; TLC rejects any event containing a panic, hang, 'both'/'none' outcome, (true, error) from vers.Contains, a CLI exit status other than 0/1, or a call over the budget.",
   note="Trusted: TLC; recover() and a per-input deadline as sensors; the time bound is a budget (5 s + 2 ms per (n/1000)^2, minimum of three measurements), not a proof. Beyond length L inputs are seeded garbage (mutations of universe members, of the C02/C05 range catalogue and of strings sampled from the parsers' regular expressions) and, in the thorough tier, the corpus of Go's coverage-guided fuzzer (150 s, used only as an input generator: the corpus is replayed through the recorded harness and judged by TLC); none of these is exhaustive.",
   ref="DESIGN.md 5-C06"),
 "C07": dict(
   technique="abstract comparison sort driven by an oracle matrix model-checked by TLC (Sort.tla; cyclic oracle as negative control); all permutations from TLC replayed through slices.SortFunc(vs, V.Compare) and the real CLI; TLC trace validation of multiset equality, adjacent order and class-sequence uniqueness",
   text="Sort.tla shows at design level why C07 needs C01: with a total-preorder oracle every input order yields a non-decreasing permutation with a unique class sequence, with a 3-cycle TLC produces the counterexample (checked on every run). Conformance: multisets of real versions (forced duplicate texts, Compare-equal spellings, one member per distinct text shape, and triples a pre-sample flags as inconsistently ordered) are sorted in every order by the documented idiom and, for a sample, by the real binary; TLC judges the three clauses against the logged Compare matrix; invalid members must make the CLI exit 1 naming the text.",
   note="Trusted: TLC; multisets are seeded samples of the TLC universes; the order clauses are judged on order-regular, single-partition sets (alpm pkgrel, KF-alpm-01/KF-maven-01).",
   ref="DESIGN.md 5-C07"),
 "C15": dict(
   technique="CLI decision machine in TLA+ (Cli.tla) explored by TLC over every argv shape; each shape instantiated and executed with the real binary; library observation for the same arguments logged in the same event; TLC trace validation stdout/exit = Expect",
   text="Cli.tla classifies an argument vector stage by stage (registry, command, arity, parse) and TLC checks that success is reached iff every stage passes and exits are 0/1; every shape (name kind x command kind x 0..5 arguments x parses/fails) is instantiated for all 20 ecosystem names, vers and unknown names with universe members, generated range texts and hostile strings; the real binary is executed and TLC judges exact stdout (decimal, true/false, Go-quoted sort output) and exit status against the library observation; per-name wiring runs make a mis-registered ecosystem visible.",
   note="Trusted: TLC; the oracle is the library called in-process by the harness; %q escaping is modelled for printable ASCII, quote, backslash, newline, tab, CR only; NUL cannot be passed in argv.",
   ref="DESIGN.md 5-C15"),
 "C16": dict(
   technique="variant generator in TLA+ (VersVariants.tla: permutations, spaces at every gap, repeated and empty constraints) applied by TLC to every well-formed range of Vers.tla; base and variants evaluated by the real vers.Contains; TLC trace validation (result, error) of variant = base",
   text="For every well-formed range with up to K constraints (K=3 quick, 4 thorough) and each of 11 schemes TLC produces the set of meaning-preserving spellings; the harness evaluates base and variants on every probe position; TLC checks that result and error/no-error outcome never differ (1.17M comparisons in the quick tier). Thorough adds all 120/720 permutations of sampled 5-6 constraint ranges.",
   note="Trusted: TLC; bounds are pairwise non-equivalent by construction (strictly increasing chains); whitespace is the space character.",
   ref="DESIGN.md 5-C16"),
 "C17": dict(
   technique="VERS well-formedness on bytes and the scheme->ecosystem table in TLA+ (VersSyntax.tla); TLC enumerates every single-point corruption of seed ranges, near-miss scheme names and cross-ecosystem routing ranges (VersCorrupt.tla); real vers.Contains replayed; TLC trace validation error <=> not well-formed, error => false, routed result = denotation under the scheme's own logged order",
   text="The generator extracts constraint versions with the specification's own parser; the harness logs, under the ecosystem the specification assigns to the scheme, the validity of every version and the Compare matrix; TLC recomputes well-formedness from the bytes and judges the error outcome and, for well-formed strings, the result via VDen on ranks derived from the logged matrix - so a scheme wired to the wrong ecosystem cannot pass.",
   note="Trusted: TLC; version validity is observed, not modelled; the lone '*' is not covered; corruptions are single-point.",
   ref="DESIGN.md 5-C17"),
 "C18": dict(
   technique="round-trip and padding relations as TLA+ predicates (RtC18) over logged observations; padding pairs enumerated by TLC (Api.tla); texts from the TLC universes and range generators; TLC trace validation",
   text="For shape-stratified accepted and rejected version texts and generated range texts (incl. pypi '===') the harness logs String(), re-parse, and comparison/containment vectors against a witness set, unpadded and padded with whitespace pairs from the 441 pairs TLC enumerates; TLC judges String() = input up to whitespace, re-parse equal, padding changes neither acceptance nor any result.",
   note="Trusted: TLC; seeded samples of texts and padding pairs (all 440 non-empty pairs on one version and range per ecosystem in thorough).",
   ref="DESIGN.md 5-C18"),
 "C19": dict(
   technique="begin/mid/end interleaving model of goroutines over a shared heap model-checked by TLC (Conc.tla; lazily caching variant as negative control); real calls logged from two sequential orders and a 16-32 goroutine run in three processes; TLC trace validation with a memo history variable; Go race detector as an outside sensor",
   text="Conc.tla: TLC explores every interleaving of 3 goroutines x 2 calls and checks HeapNeverChanges and ResultsIndependent; the negative control must fail. Conformance: one table of operations over shared values is executed in two different sequential orders (two processes) and concurrently under -race; the trace specification carries memo[key] = first result seen and rejects any later different result (schedule or history dependence) and any change of the deep reflective snapshot of the shared values; each race report is an event the specification cannot accept.",
   note="Trusted: TLC; the Go race detector (happens-before on executed paths only) and recover(); schedules inside a call are not controlled.",
   ref="DESIGN.md 5-C19"),
}
checks = []
for p in props:
    pid = p["id"]
    if pid not in CLAIMED: continue
    c = CLAIMED[pid]
    checks.append({
      "property_id": pid,
      "quick_cmd": "bin/vcheck %s --tier quick" % pid,
      "thorough_cmd": "bin/vcheck %s --tier thorough" % pid,
      "evidence_file": "evidence/%s.json" % pid,
      "replay_cmd_template": "bin/vcheck replay {path}",
      "engine": "tlc-trace",
      "level_claimed": {"category": "model_checking", "text": c["text"], "design_ref": c["ref"]},
      "level_note": c["note"],
      "technique": c["technique"],
    })
na = [{"property_id": p["id"], "reason": "not claimed"} for p in props if p["id"] not in CLAIMED]
m = {
 "version": 1,
 "setup_cmd": "bin/setup",
 "hooks": {"guard": "verif", "enable": "go build -tags verif (the tag is reserved; no hook file exists: all properties are observable at the public API / process boundary)",
           "baseline_off_cmd": "cd /repo && GOFLAGS=-mod=mod GOPROXY=off go test -vet=off -count=1 ./...",
           "source_commits": [], "add_only": True},
 "engines": [
   {"name": "tlc-trace", "path": "spec/", "serves_properties": [c["property_id"] for c in checks],
    "kind_free_text": "explicit TLA+ specification (spec/*.tla) checked with TLC; bound to the Go code by replaying TLC-generated vectors into the real API (harness/) and validating the recorded NDJSON traces with TLC (spec/UniversTrace.tla)"}],
 "checks": checks,
 "not_applicable": na,
 "notes": "Exit codes: 0 pass, 1 violation (VIOLATION line), 2 infrastructure failure (never a verdict). Every run ends with a binding self-test: one recorded field of the run's own trace is corrupted and the trace specification must reject it (else exit 2). VERIF_SEED seeds the seeded generators; exhaustive parts do not depend on it. A check starts up to eight TLC processes (heap limits 4-6 GB each): run the checks one after another on a 64 GB machine.",
}
json.dump(m, open(os.path.join(V, "MANIFEST.json"), "w"), indent=1)
print("claimed", [c["property_id"] for c in checks])
