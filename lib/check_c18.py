"""C18 — parsed values keep their text; re-parsing and outer whitespace change nothing.
Texts: accepted (and some rejected) members of the TLC universes, comparator and shorthand
range texts from the TLC generators; paddings: all pairs of whitespace strings of length <= 2
over SP, TAB, CR, LF, enumerated by TLC (Api.tla). The harness logs String(), re-parse and
the comparison/containment vectors against a witness set, unpadded and padded; TLC judges."""
import random, json, concurrent.futures as cf
import vlib, check_c02, check_c05

ECOS = ["alpine", "alpm", "apache", "cargo", "composer", "conan", "cran", "debian", "gem", "gentoo", "github",
        "golang", "hex", "mattermost", "maven", "npm", "nuget", "pypi", "rpm", "semver"]

def paddings(run):
    cfg = ("CONSTANT Texts = {\"a\"}\nCONSTANT MaxLog = 2\nSPECIFICATION ASpec\nINVARIANT OnlyLegalOutcomes\nINVARIANT EmitPads\n"
           "PROPERTY ObserversArePure\nCONSTRAINT Bound\nCHECK_DEADLOCK FALSE\n")
    lines, st, dt = vlib.tlc(run, "MC_Api", cfg, workers=2, timeout=300, coverage=True)
    return vlib.tagged(lines, "VEC")[0]["pads"]

def check(run):
    quick = run.tier == "quick"
    exe = vlib.build_harness(run)
    U = vlib.universe(run, ECOS)
    rnd = random.Random(run.seed)
    acc = vlib.accepted(run, exe, U, regex_extra=200 if quick else 1500, rnd=rnd, tokens=2 if quick else 3, tokens_cap=300 if quick else 1500)
    rnd = random.Random(run.seed)
    allpads = paddings(run)                # 441 pairs
    nonempty = [p for p in allpads if p["l"] or p["r"]]
    shvecs = check_c05.vectors(run)
    rjobs = check_c02.gen_round(run, exe, {e: acc[e] for e in check_c02.ECOS}, rnd, 0, 0)
    rtexts = {e: [] for e in ECOS}
    for j in rjobs: rtexts[j["eco"]].append(j["text"])
    for v in shvecs: rtexts[v["eco"]].append(v["text"])
    # long but valid versions: the last letter run (else the last digit run) of a member stretched so that the text is
    # 254 / 256 / 1024 / 4096 bytes long - lengths at which a size limit applied before the trim would start to bite
    import re
    longc = {}
    for e in ECOS:
        c = []
        for t in rnd.sample(acc[e], min(len(acc[e]), 8)):
            runs = list(re.finditer(r"[A-Za-z]+", t)) or list(re.finditer(r"[0-9]+", t))
            if not runs: continue
            m = runs[-1]
            for L in (254, 256, 1024, 4096):
                if L > len(t):
                    c.append(t[:m.end()] + t[m.end() - 1] * (L - len(t)) + t[m.end():])
        longc[e] = c
    longv = vlib.accept_filter(run, exe, longc, name="long")
    jobs = []
    nv, nr, npad = (60, 40, 12) if quick else (2500, 1200, 60)
    for e in ECOS:
        accset = set(acc[e])
        rej = [t for t, _ in U[e] if t not in accset]
        wit = rnd.sample(acc[e], min(12, len(acc[e])))
        texts = vlib.stratified(acc[e], nv, rnd) + rnd.sample(rej, min(len(rej), nv // 6))
        for t in texts:
            jobs.append({"k": "roundtrip", "eco": e, "kind": "v", "text": t, "witness": wit, "pads": rnd.sample(nonempty, npad)})
        for t in longv[e][:8 if quick else 32]:
            jobs.append({"k": "roundtrip", "eco": e, "kind": "v", "text": t, "witness": wit[:4], "pads": rnd.sample(nonempty, npad)})
        rs = rtexts[e]
        extra = ["1.0 ||", ">=", "[1.0", "~>"]
        if e == "pypi":   # the identity operator compares text: it must see the trimmed text
            extra += ["===" + w for w in wit[:6]] + ["===" + wit[0] + ",>=" + wit[1]]
        # ranges with internal spaces: a blank after every operator, blanks around commas, doubled blanks (the parser
        # decides which spellings it accepts; an accepted one must keep its text)
        import re
        spaced = []
        for t in rnd.sample(rs, min(nr // 2, len(rs))):
            spaced.append(re.sub(r"(>=|<=|!=|==|~>|~=|\^|~|>|<|=)(?=[^ =<>~!])", r"\1 ", t))
            spaced.append(t.replace(",", ", ") if ", " not in t else t.replace(", ", " , "))
            spaced.append(t.replace(" ", "  "))
        spaced = [x for x in dict.fromkeys(spaced) if x not in set(rs)]
        for t in rnd.sample(rs, min(nr, len(rs))) + extra + spaced:
            jobs.append({"k": "roundtrip", "eco": e, "kind": "r", "text": t, "witness": wit, "pads": rnd.sample(nonempty, max(4, npad // 2))})
        # every padding pair at least once per ecosystem, on one version and one range
        if not quick:
            jobs.append({"k": "roundtrip", "eco": e, "kind": "v", "text": acc[e][0], "witness": wit, "pads": nonempty})
            if rs: jobs.append({"k": "roundtrip", "eco": e, "kind": "r", "text": rs[0], "witness": wit, "pads": nonempty})
    nsh = 8
    shards = [jobs[i::nsh] for i in range(nsh)]
    def one(k_sh):
        k, sh = k_sh
        jp, ep = run.path("jobs%d.ndjson" % k), run.path("ev%d.ndjson" % k)
        vlib.write_ndjson(jp, sh); vlib.run_harness(run, exe, jp, ep)
        mm, info = vlib.judge(run, ep, "C18", name="judge%d" % k, heap="5g")
        evs = vlib.read_ndjson(ep)
        n = sum(1 + len(e["pads"]) for e in evs)
        smp = [e for e in evs if e["acc"] and e["kind"] == "r"][:1]
        return mm, n, smp
    with cf.ThreadPoolExecutor(max_workers=8) as ex:
        results = list(ex.map(one, list(enumerate(shards))))
    judged = 0
    for mm, n, smp in results:
        judged += n
        for e in smp:
            if len(run.samples) < 5:
                run.samples.append({"eco": e["eco"], "kind": e["kind"], "text": e["show"], "acc": e["acc"], "vec": e["vec"], "pad0": e["pads"][0] if e["pads"] else None})
        for m in mm:
            if m.get("known"):
                run.known[m["known"]] = run.known.get(m["known"], 0) + 1
            else:
                run.violations.append(m)
    run.extra["texts"] = len(jobs); run.extra["padding_pairs_total"] = len(allpads)
    run.assumptions = ["version texts: seeded members (accepted and rejected) of the TLC universes; range texts: the TLC-generated comparator and shorthand texts; witness set: 12 accepted members per ecosystem",
                       "quick samples %d padding pairs per text; thorough additionally applies all 440 non-empty pairs to one version and one range per ecosystem" % npad]
    return vlib.finish(run, rule="per ecosystem: seeded version texts (accepted and rejected) and generated range texts x seeded padding pairs from the 441 whitespace pairs; relations String/re-parse/padding judged per text",
                       exhaustive=False, judged=judged, min_judged=1000)

def replay(d):
    print(json.dumps(d, indent=1)); return 0
