"""C16 — VERS results ignore constraint order, whitespace, duplicates, empty constraints.
TLC explores the well-formed ranges (Vers.tla) and produces, for each range and scheme, the
set of meaning-preserving spellings (VersVariants.tla: all permutations, a space at every gap,
repeated constraints, empty constraints); the harness evaluates base and variants on every
probe position with the real vers.Contains; TLC judges that (result, error) never differs."""
import random, json, itertools, concurrent.futures as cf
import vlib, versgen

def check(run):
    quick = run.tier == "quick"
    exe = vlib.build_harness(run)
    ch = versgen.chains(run)
    versgen.check_chains(run, exe, ch)
    K = 3 if quick else 4
    rnd = random.Random(run.seed)
    schemes = versgen.SCHEMES
    cfg = vlib.cfg_consts(K=K, Schemes=set(schemes), ChainNo=1) + \
        "INIT VInit\nNEXT VNext\nINVARIANT SweepIsDen\nINVARIANT EmitVariants\nCHECK_DEADLOCK FALSE\n"
    lines, st, dt = vlib.tlc(run, "MC_Vers", cfg, name="variants", workers=8, timeout=2400, heap="10g")
    vecs = vlib.tagged(lines, "VEC")
    jobs = []
    nvar = 0
    for v in vecs:
        probes = [ch[v["scheme"]][p] for p in range(0, 2 * K + 1)]
        nvar += len(v["variants"])
        jobs.append({"k": "versvar", "scheme": v["scheme"], "base": v["base"], "variants": v["variants"], "probes": probes})
    # second family of chains: build metadata, prefixes, epochs, letter case, pypi pre-releases and local labels as
    # bounds; every probe of the chain (pre-release probes included) is asked of every spelling
    ch2 = versgen.chains(run, chain=2)
    versgen.check_chains(run, exe, ch2)
    K2 = 2 if quick else 3
    cfg2 = vlib.cfg_consts(K=K2, Schemes=set(schemes), ChainNo=2) + \
        "INIT VInit\nNEXT VNext\nINVARIANT EmitVariants\nCHECK_DEADLOCK FALSE\n"
    lines, st, dt = vlib.tlc(run, "MC_Vers", cfg2, name="variants2", workers=8, timeout=2400, heap="10g")
    for v in vlib.tagged(lines, "VEC"):
        nvar += len(v["variants"])
        jobs.append({"k": "versvar", "scheme": v["scheme"], "base": v["base"], "variants": v["variants"], "probes": ch2[v["scheme"]]})
    if not quick:
        # beyond the exhaustive bound: 5-6 constraints, all 120/720 permutations of sampled well-formed ranges
        for _ in range(60):
            n = rnd.choice([5, 6])
            s = rnd.choice(schemes)
            pos = sorted(rnd.sample(range(1, 17, 2), n))
            ops = []
            lower_next = rnd.random() < 0.5
            for p in pos:
                c = rnd.random()
                if c < 0.25: ops.append(rnd.choice(["=", "!="]))
                else:
                    ops.append(rnd.choice([">", ">="]) if lower_next else rnd.choice(["<", "<="])); lower_next = not lower_next
            cs = [o + ch[s][p] for o, p in zip(ops, pos)]
            base = "vers:%s/" % s + "|".join(cs)
            variants = ["vers:%s/" % s + "|".join(pm) for pm in itertools.permutations(cs)][1:]
            nvar += len(variants)
            jobs.append({"k": "versvar", "scheme": s, "base": base, "variants": variants, "probes": ch[s]})
    nsh = 8
    shards = [jobs[i::nsh] for i in range(nsh)]
    def one(k_sh):
        k, sh = k_sh
        jp, ep = run.path("jobs%d.ndjson" % k), run.path("ev%d.ndjson" % k)
        vlib.write_ndjson(jp, sh); vlib.run_harness(run, exe, jp, ep)
        mm, info = vlib.judge(run, ep, "C16", name="judge%d" % k, heap="6g")
        n = 0; smp = None; baseerr = 0
        for e in vlib.read_ndjson(ep):
            n += len(e["variants"]) * len(e["probes"])
            baseerr += sum(1 for c in e["baseres"] if c >= 2)
            if smp is None and e["variants"]:
                smp = {"scheme": e["scheme"], "base": e["base"], "variant": e["variants"][len(e["variants"]) // 2], "probe": e["probes"][1],
                       "base_result": e["baseres"][1], "variant_result": e["res"][len(e["variants"]) // 2][1]}
        return mm, n, smp, baseerr
    with cf.ThreadPoolExecutor(max_workers=8) as ex:
        results = list(ex.map(one, list(enumerate(shards))))
    judged = 0; baseerr = 0
    for mm, n, smp, be in results:
        judged += n; baseerr += be
        if smp and len(run.samples) < 6: run.samples.append(smp)
        for m in mm:
            if m.get("known"):
                run.known[m["known"]] = run.known.get(m["known"], 0) + 1
            else:
                run.violations.append(m)
    if baseerr:
        raise vlib.Infra("a base range was answered with an error (%d probe results): the base set is meant to be accepted ranges" % baseerr)
    run.extra["base_ranges"] = len(jobs); run.extra["variants"] = nvar; run.extra["K_exhaustive"] = K
    run.assumptions = ["base ranges: every well-formed range with 1..K constraints over the strictly increasing chains of Vers.tla (pairwise non-equivalent bounds by construction), all accepted without error (checked)",
                       "whitespace is the space character only (other whitespace is not valid in VERS)"]
    return vlib.finish(run, rule="every base range x {all permutations, 1-2 spaces at every gap of the constraint text, spaces around every bar, every repeated subset, doubled constraints, empty constraints at every position, combined reorder+spaces+repeat} x every probe position x 11 schemes",
                       exhaustive=True, judged=judged, min_judged=1000)

def replay(d):
    print(json.dumps(d, indent=1)); return 0
