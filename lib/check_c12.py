"""C12 — Maven orders as ComparableVersion (reference: spec/MavenCV.tla, audited against maven-artifact 3.8.7)."""
import refcheck, re

QUALS = ["alpha", "beta", "milestone", "rc", "cr", "snapshot", "ga", "final", "release", "sp", "foo", "zeta", "xyz", "a", "b", "m", "dev", "pre"]
def seeded(U, rnd, quick):
    jobs = []
    for r in range(3 if quick else 120):
        texts = set()
        while len(texts) < 150:
            n = rnd.randint(1, 4)
            s = ".".join(str(rnd.choice([0, 0, 1, 1, 2, 3, 9, 10, 11, 100, 2147483648, 10**20])) for _ in range(n))
            c = rnd.random()
            if c < 0.75:
                q = rnd.choice(QUALS)
                q = rnd.choice([q, q.upper(), q.capitalize()])
                s += rnd.choice(".-") + q
                c2 = rnd.random()
                if c2 < 0.6:
                    s += rnd.choice(["", ".", "-"]) + str(rnd.choice([0, 1, 2, 3, 10, 11, 10**19]))
            elif c < 0.9:
                s += "-" + str(rnd.choice([0, 1, 2, 10]))
            texts.add(s)
        jobs.append({"k": "matrix", "eco": "maven", "tag": "seeded", "texts": sorted(texts), "part": []})
    # one base, every joiner x qualifier x number suffix: the pairs that differ only in how the group is attached. The
    # all-zero bases always (their numeric items are trimmed away, so the group's place in the list is all that is left).
    SUF = ("", "1", ".1", "-1", "2", "-0")
    import random
    rnd = random.Random("|".join(jobs[0]["texts"][:20]))     # own stream from here on (derived from the seeded draws, consuming none)
    def family(bs):
        return [b + j + rnd.choice([q, q, q.upper()]) + n for b in bs for j in ".-" for q in QUALS for n in SUF]
    jobs.append({"k": "matrix", "eco": "maven", "tag": "seeded-base", "texts": sorted(set(["0", "0.0"] + family(["0", "0.0"]))), "part": []})
    others = ["0.0.0", "00", "0.00", "1", "1.0", "1.0.0", "0.1", "2.0", "1.1", "10.0", "1.0.0.0"]
    for r in range(1 if quick else 30):
        bs = rnd.sample(others, 2)
        jobs.append({"k": "matrix", "eco": "maven", "tag": "seeded-base", "texts": sorted(set(bs + family(bs))), "part": []})
    return jobs

def check(run):
    return refcheck.run_ref(run, "C12", ["maven"], (1050, 8000), seeded_fn=seeded,
        rule="pairs of conventionally shaped members (MvInScope) within blocks of <=350 members of the TLC-generated universe + seeded conventional shapes; judged by MavenCV.tla where Maven 3.8.7 and 3.8.1-3.8.6 agree",
        assumptions=["MavenCV.tla transcribes ComparableVersion of Maven 3.8.7 (audited against maven-artifact-3.x.jar by `vcheck audit C12`, 0 disagreements on 20000 pairs)",
                     "pairs on which Maven 3.8.7 (MNG-7644) and earlier 3.8 releases disagree are not claimed"])
