"""C14 — Alpine orders as apk-tools (reference: spec/Apk.tla, audited by apk-tools' version.data)."""
import refcheck, audit, os, vlib

SUF = ["alpha", "beta", "pre", "rc", "cvs", "svn", "git", "hg", "p"]
def gen(rnd, n):
    # small numbers, 2^31, and 6-9 digit components (several of them make a numeric part of 20-40 characters)
    s = ".".join(str(rnd.choice([0, 0, 1, 1, 2, 10, 11, 2147483648, 100000, 999999, 20240115, 999999999])) for _ in range(n))
    if rnd.random() < 0.3: s += rnd.choice("abz")
    for _ in range(rnd.choice([0, 0, 1, 1, 2, 3])):
        s += "_" + rnd.choice(SUF) + rnd.choice(["", "", "0", "1", "2", "10", "999999999", "1000000000", "2147483648", "20210530193627"])
    if rnd.random() < 0.4: s += "-r" + str(rnd.choice([0, 1, 2, 10]))
    return s
def seeded(U, rnd, quick):
    jobs = []
    for r in range(4 if quick else 40):
        n = [5, 3, 2, 4, 1][r % 5]          # every component count of the property's scope, the rarest first
        texts = set()
        while len(texts) < 150: texts.add(gen(rnd, n))
        jobs.append({"k": "matrix", "eco": "alpine", "tag": "seeded", "texts": sorted(texts), "part": []})
    return jobs

def check(run):
    # spec audit on every run: apk-tools' own table must agree with Apk.tla (else exit 2: spec suspect)
    n, rej, mm = audit.audit_fixture(run, "C14", os.path.join(vlib.REPO, "pkg/ecosystem/alpine/testdata/compare.txt"))
    bad = [m for m in mm if m["why"] == "audit"]
    if bad:
        raise vlib.Infra("Apk.tla disagrees with apk-tools' version.data: %r" % bad[:3])
    run.extra["spec_audit"] = {"fixture_lines": n, "disagreements": 0}
    return refcheck.run_ref(run, "C14", ["alpine"], (1050, 4000), seeded_fn=seeded, boundary_max=2**31,  # the property claims magnitudes 0..2^31
        rule="pairs of well-formed members (nine known suffixes, no leading zeros, no hash) with equal numeric component counts, within blocks of <=350 members of the TLC-generated universe + seeded versions; judged by Apk.tla with a missing revision read as -r0",
        assumptions=["Apk.tla transcribes apk-tools 2.x version.c; audited by the 708 lines of apk-tools' version.data shipped in the repository (0 disagreements, re-checked on every run); no executable apk on this image"])
