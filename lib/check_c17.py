"""C17 — VERS validates its input and routes each scheme to the right ecosystem.
TLC enumerates every single-point corruption (delete / replace / insert at each position)
of seed ranges per scheme, near-miss scheme names and routing ranges over versions that are
valid or ordered differently across ecosystems (VersCorrupt.tla), and extracts the constraint
versions with the specification's own parser (VersSyntax.tla). The harness runs the real
vers.Contains on the bytes and logs the validity of every version and the Compare matrix under
the ecosystem the specification assigns to the scheme. TLC judges error <=> not well-formed,
error => false, and the routed result."""
import json, concurrent.futures as cf
import vlib

BYTES_QUICK = [65, 32, 9, 127, 128, 124, 47, 42, 60, 61, 48, 35, 63, 37]          # ... and the URI-special # ? %
BYTES_FULL = [65, 32, 9, 127, 128, 124, 47, 58, 42, 60, 62, 61, 33, 97, 48, 46, 45, 126, 118, 0, 35, 63, 37, 64, 38, 59, 92, 34, 43]

def check(run):
    quick = run.tier == "quick"
    exe = vlib.build_harness(run)
    cfg = vlib.cfg_consts(NSeeds=1 if quick else 3, Bytes=set(BYTES_QUICK if quick else BYTES_FULL),
                          RoutingIdx=set([1, 3, 5, 6, 7, 8] if quick else range(1, 14))) + \
        "CONSTANT Seeds <- SeedsDef\nCONSTANT Routing <- RoutingDef\nINIT Init\nNEXT Next\nINVARIANT Emit\nCHECK_DEADLOCK FALSE\n"
    lines, st, dt = vlib.tlc(run, "MC_VersCorrupt", cfg, workers=8, timeout=2400, heap="8g")
    vecs = vlib.tagged(lines, "VEC")
    jobs = [{"k": "verswf", "bytes": v["bytes"], "probe": v["probe"], "eco": v["eco"], "cons": v["cons"]} for v in vecs]
    nsh = 8
    shards = [jobs[i::nsh] for i in range(nsh)]
    def one(k_sh):
        k, sh = k_sh
        jp, ep = run.path("jobs%d.ndjson" % k), run.path("ev%d.ndjson" % k)
        vlib.write_ndjson(jp, sh); vlib.run_harness(run, exe, jp, ep)
        mm, info = vlib.judge(run, ep, "C17", name="judge%d" % k, heap="5g")
        evs = vlib.read_ndjson(ep)
        nerr = sum(1 for e in evs if e["err"]); smp = [e for e in evs if e["err"]][:1] + [e for e in evs if not e["err"]][:1]
        return mm, len(evs), nerr, smp
    with cf.ThreadPoolExecutor(max_workers=8) as ex:
        results = list(ex.map(one, list(enumerate(shards))))
    judged = 0; nerr = 0
    for mm, n, ne, smp in results:
        judged += n; nerr += ne
        for e in smp:
            if len(run.samples) < 6: run.samples.append({k: e[k] for k in ("text", "probe", "eco", "ok", "err")})
        for m in mm:
            if m.get("known"):
                run.known[m["known"]] = run.known.get(m["known"], 0) + 1
            else:
                run.violations.append(m)
    run.extra["strings"] = len(vecs); run.extra["answered_with_error"] = nerr
    run.assumptions = ["version validity is not modelled: the event logs the real NewVersion outcome under the ecosystem the specification routes the scheme to (deb->debian, generic->semver, ...)",
                       "the lone '*' range is not covered (the property's exclusion)"]
    return vlib.finish(run, rule="every single-point corruption (delete, replace by each alphabet byte, insert each alphabet byte at each gap) of the seed ranges of 11 schemes + near-miss scheme names + routing ranges over cross-ecosystem versions",
                       exhaustive=True, judged=judged, min_judged=1000)

def replay(d):
    print(json.dumps(d, indent=1)); return 0
