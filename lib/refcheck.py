"""Generic machinery for the reference-order properties C08-C14: the universe of
the ecosystem(s) is explored by TLC, the real Compare matrix is recorded, and TLC
evaluates the reference operator (Dpkg.tla, Rpm.tla, ...) on every in-scope pair."""
import random, json, os, re, concurrent.futures as cf
import vlib, orderdiag

# numbers at which a fixed-width representation, a packed key or a folded weight changes behaviour
BOUNDARY = [9, 10, 255, 256, 999, 1000, 32767, 32768, 65535, 65536, 65537, 99999, 100000, 999999999, 1000000000, 1000000001,
            2147483647, 2147483648, 4294967295, 4294967296, 4294967297, 20210530193627, 9007199254740992, 9007199254740993,
            9223372036854775807, 9223372036854775808, 9223372036854775809, 9999999999999999998, 9999999999999999999,
            18446744073709551615, 18446744073709551616, 18446744073709551617]
_RUN = re.compile(r"[0-9]+")
_HEAD = re.compile(r"^[vV=]*(?:[0-9]+[!:])?[0-9]+(?:\.[0-9]+)*")
_TAIL = re.compile(r"[._~+-]?[A-Za-z]+[._-]?[0-9]*$")
# spellings with leading zeros (octal-looking, zero-padded): equal in value to 0, 8, 9, 10, 11, 100
ZEROLED = ["00", "08", "09", "010", "011", "0010", "0100"]
def boundary_jobs(U, ecos, rnd, quick, maxval=None):
    """Same-template families: a universe member with one (sometimes two) of its digit runs replaced by
    every boundary number, several templates per job so that families also meet each other."""
    jobs = []
    BOUNDARY = [b for b in globals()["BOUNDARY"] if maxval is None or b <= maxval]
    for eco in ecos:
        pool = [(t, p) for t, p in U[eco] if _RUN.search(t) and len(t) < 40]
        if not pool: continue
        for r in range(3 if quick else 60):
            texts, part = [], []
            for t, p in rnd.sample(pool, min(4, len(pool))):
                runs = list(_RUN.finditer(t))
                m = runs[-1] if rnd.random() < 0.5 else rnd.choice(runs)      # qualifier / dev / post numbers come last
                m2 = rnd.choice(runs)
                for b in BOUNDARY + ZEROLED:
                    texts.append(t[:m.start()] + str(b) + t[m.end():]); part.append(p)
                if runs[0].start() != m.start():                              # epochs and major numbers come first
                    for b in ZEROLED + [8, 9, 10, 11, 100, 2147483648]:
                        texts.append(t[:runs[0].start()] + str(b) + t[runs[0].end():]); part.append(p)
                # the bare numeric head of the template (1.0 for 1.0.dev3) and its zero-extended spellings: what the
                # boundary variants of a pre/post/dev/qualifier number have to be ordered against
                h = _HEAD.match(t)
                if h:
                    for z in ("", ".0", ".00"):
                        texts.append(h.group(0) + z); part.append(0)
                # the template without its last marker segment (1.0a1 for 1.0a1.dev5, 1.0 for 1.0-rc.2)
                cut = _TAIL.sub("", t)
                if cut and cut != t:
                    texts.append(cut); part.append(p)
                if m2.start() != m.start():
                    lo, hi = sorted([m, m2], key=lambda x: x.start())
                    for b in rnd.sample(BOUNDARY, 6):
                        for c in rnd.sample(BOUNDARY, 2):
                            texts.append(t[:lo.start()] + str(b) + t[lo.end():hi.start()] + str(c) + t[hi.end():]); part.append(p)
                texts.append(t); part.append(p)
            seen = set(); tt = []; pp = []
            for t, p in zip(texts, part):
                if t not in seen:
                    seen.add(t); tt.append(t); pp.append(p)
            jobs.append({"k": "matrix", "eco": eco, "tag": "boundary", "texts": tt, "part": pp})
    return jobs

def run_ref(run, prop, ecos, caps, seeded_fn=None, extra_jobs_fn=None, shard=350, rule="", assumptions=(), boundary_max=None):
    quick = run.tier == "quick"
    exe = vlib.build_harness(run)
    U = vlib.universe(run, ecos)
    rnd = random.Random(run.seed)
    jobs = []
    for eco in ecos:
        mem = list(U[eco])
        rnd.shuffle(mem)
        mem = mem[:caps[0] if quick else caps[1]]
        # blocks of `shard` members: all pairs inside a block, plus overlapping blocks so
        # that every member meets a fresh random set (pairs across blocks are sampled)
        for i in range(0, len(mem), shard):
            blk = mem[i:i + shard]
            jobs.append({"k": "matrix", "eco": eco, "tag": "U", "texts": [t for t, _ in blk], "part": [p for _, p in blk]})
        if len(mem) > shard:
            for r in range((len(mem) // shard) * (1 if quick else 3)):
                blk = rnd.sample(mem, shard)
                jobs.append({"k": "matrix", "eco": eco, "tag": "Ux", "texts": [t for t, _ in blk], "part": [p for _, p in blk]})
    jobs += boundary_jobs(U, ecos, rnd, quick, maxval=boundary_max)
    # small scope: every token sequence of length <= 2 / 3 after a stem that the parser accepts (Tokens.tla)
    tok, tokcounts = vlib.token_universe(run, exe, ecos, 2 if quick else 3, cap=700 if quick else 8000, rnd=rnd)
    run.extra["token_universe_candidates_accepted"] = tokcounts
    for eco in ecos:
        tm = list(tok[eco]); rnd.shuffle(tm)
        for i in range(0, len(tm), shard):
            blk = tm[i:i + shard]
            jobs.append({"k": "matrix", "eco": eco, "tag": "tokens", "texts": blk, "part": [vlib.part_of(eco, t) for t in blk]})
    if seeded_fn:
        jobs += seeded_fn(U, rnd, quick)
    if extra_jobs_fn:
        jobs += extra_jobs_fn(U, rnd, quick)
    nshards = min(len(jobs), 8)
    shards = [jobs[i::nshards] for i in range(nshards)]
    def one(k_sh):
        k, sh = k_sh
        jp, ep = run.path("jobs%d.ndjson" % k), run.path("ev%d.ndjson" % k)
        vlib.write_ndjson(jp, sh)
        vlib.run_harness(run, exe, jp, ep)
        mm, info = vlib.judge(run, ep, prop, name="judge%d" % k, heap="5g")
        evs = vlib.read_ndjson(ep)
        return mm, info, [(e["eco"], e["n"], e["rejected"], e["tag"], e["texts"][:4], e["panics"]) for e in evs]
    with cf.ThreadPoolExecutor(max_workers=8) as ex:
        results = list(ex.map(one, list(enumerate(shards))))
    judged = 0; inscope = 0
    for mm, info, evs in results:
        for eco, n, rej, tag, smp, pan in evs:
            if len(run.samples) < 6:
                run.samples.append({"eco": eco, "tag": tag, "n": n, "first_members": smp})
            for p in pan:
                run.violations.append({"why": "panic", "eco": eco, "detail": p})
        for m in mm:
            if m.get("known"):
                run.known[m["known"]] = run.known.get(m["known"], 0) + 1
            else:
                run.violations.append(m)
        for i in info:
            for t in i.get("rejectedInScope", []):
                run.extra.setdefault("in_scope_texts_rejected_by_the_parser", [])
                if t not in run.extra["in_scope_texts_rejected_by_the_parser"] and len(run.extra["in_scope_texts_rejected_by_the_parser"]) < 200:
                    run.extra["in_scope_texts_rejected_by_the_parser"].append(t)
            if "judged" in i:
                judged += i["judged"]; inscope += i.get("inscope", 0)
            for d, c in i.get("knownCounts", []):
                run.known[d] = max(run.known.get(d, 0), c)
    run.extra["universe_sizes"] = {e: len(U[e]) for e in ecos}
    run.extra["in_scope_members_judged"] = inscope
    run.assumptions = list(assumptions)
    return vlib.finish(run, rule=rule, exhaustive=False, judged=judged, min_judged=500)
