"""Generic machinery for the reference-order properties C08-C14: the universe of
the ecosystem(s) is explored by TLC, the real Compare matrix is recorded, and TLC
evaluates the reference operator (Dpkg.tla, Rpm.tla, ...) on every in-scope pair."""
import random, json, os, concurrent.futures as cf
import vlib, orderdiag

def run_ref(run, prop, ecos, caps, seeded_fn=None, extra_jobs_fn=None, shard=350, rule="", assumptions=()):
    quick = run.tier == "quick"
    exe = vlib.build_harness(run)
    U = vlib.universe(run, ecos)
    rnd = random.Random(run.seed)
    jobs = []
    for eco in ecos:
        mem = list(U[eco])
        rnd.shuffle(mem)
        mem = mem[:caps[0] if quick else caps[1]]
        # blocks of `shard` members: all pairs inside a block, plus overlapping blocks so
        # that every member meets a fresh random set (pairs across blocks are sampled)
        for i in range(0, len(mem), shard):
            blk = mem[i:i + shard]
            jobs.append({"k": "matrix", "eco": eco, "tag": "U", "texts": [t for t, _ in blk], "part": [p for _, p in blk]})
        if len(mem) > shard:
            for r in range(len(mem) // shard):
                blk = rnd.sample(mem, shard)
                jobs.append({"k": "matrix", "eco": eco, "tag": "Ux", "texts": [t for t, _ in blk], "part": [p for _, p in blk]})
    if seeded_fn:
        jobs += seeded_fn(U, rnd, quick)
    if extra_jobs_fn:
        jobs += extra_jobs_fn(U, rnd, quick)
    nshards = min(len(jobs), 8)
    shards = [jobs[i::nshards] for i in range(nshards)]
    def one(k_sh):
        k, sh = k_sh
        jp, ep = run.path("jobs%d.ndjson" % k), run.path("ev%d.ndjson" % k)
        vlib.write_ndjson(jp, sh)
        vlib.run_harness(run, exe, jp, ep)
        mm, info = vlib.judge(run, ep, prop, name="judge%d" % k, heap="5g")
        evs = vlib.read_ndjson(ep)
        return mm, info, [(e["eco"], e["n"], e["rejected"], e["tag"], e["texts"][:4], e["panics"]) for e in evs]
    with cf.ThreadPoolExecutor(max_workers=8) as ex:
        results = list(ex.map(one, list(enumerate(shards))))
    judged = 0; inscope = 0
    for mm, info, evs in results:
        for eco, n, rej, tag, smp, pan in evs:
            if len(run.samples) < 6:
                run.samples.append({"eco": eco, "tag": tag, "n": n, "first_members": smp})
            for p in pan:
                run.violations.append({"why": "panic", "eco": eco, "detail": p})
        for m in mm:
            if m.get("known"):
                run.known[m["known"]] = run.known.get(m["known"], 0) + 1
            else:
                run.violations.append(m)
        for i in info:
            if "judged" in i:
                judged += i["judged"]; inscope += i.get("inscope", 0)
            for d, c in i.get("knownCounts", []):
                run.known[d] = max(run.known.get(d, 0), c)
    run.extra["universe_sizes"] = {e: len(U[e]) for e in ecos}
    run.extra["in_scope_members_judged"] = inscope
    run.assumptions = list(assumptions)
    return vlib.finish(run, rule=rule, exhaustive=False, judged=judged, min_judged=500)
