"""C04 — VERS containment is union-of-intervals under the scheme's order.
Design level: TLC model-checks that the normative sweep equals Den for every well-formed
range with up to K constraints and every probe position (Vers.tla). Conformance: every such
range, rendered for each of the 11 schemes from strictly increasing version chains, is
evaluated by the real vers.Contains at every probe position; TLC judges result = Den."""
import random, json, concurrent.futures as cf
import vlib, versgen

PYPI_PRE = ["1.0a1", "1.0rc1", "2.0.dev1", "1.1b2", "3.0.0rc1", "1.5c1", "1.0.post1.dev3", "1!1.0.alpha2+b.1"]

def jobs_for(vecs, ch, K, schemes, prepos=()):
    jobs = []
    for v in vecs:
        for s in schemes:
            probes = [{"pos": p, "text": ch[s][p]} for p in range(0, 2 * K + 1)]
            if s == "pypi" and not prepos:
                probes += [{"pos": -2, "text": t} for t in PYPI_PRE]
            jobs.append({"k": "vers", "scheme": s, "tag": "den", "text": v["texts"][s], "cs": v["cs"], "probes": probes,
                         "prepos": list(prepos) if s == "pypi" else []})
    for s in schemes:
        jobs.append({"k": "vers", "scheme": s, "tag": "star", "text": "vers:%s/*" % s, "cs": [],
                     "probes": [{"pos": p, "text": t} for p, t in enumerate(ch[s])] + ([{"pos": -2, "text": t} for t in PYPI_PRE] if s == "pypi" else [])})
    return jobs

def run_jobs(run, exe, jobs, prop, sample_keys=("scheme", "text")):
    nsh = 8
    shards = [jobs[i::nsh] for i in range(nsh)]
    def one(k_sh):
        k, sh = k_sh
        jp, ep = run.path("jobs%d.ndjson" % k), run.path("ev%d.ndjson" % k)
        vlib.write_ndjson(jp, sh); vlib.run_harness(run, exe, jp, ep)
        mm, info = vlib.judge(run, ep, prop, name="judge%d" % k, heap="5g")
        n = 0; smp = None
        for e in vlib.read_ndjson(ep):
            n += len(e["probes"])
            if smp is None and len(e["probes"]) > 2:
                smp = {"scheme": e["scheme"], "text": e["text"], "probe": e["probes"][2]["text"], "ok": e["probes"][2]["ok"], "err": e["probes"][2]["err"]}
        return mm, n, smp
    with cf.ThreadPoolExecutor(max_workers=8) as ex:
        results = list(ex.map(one, list(enumerate(shards))))
    judged = 0
    for mm, n, smp in results:
        judged += n
        if smp and len(run.samples) < 6: run.samples.append(smp)
        for m in mm:
            if m.get("known"):
                run.known[m["known"]] = run.known.get(m["known"], 0) + 1
            else:
                run.violations.append(m)
    return judged

def check(run):
    quick = run.tier == "quick"
    exe = vlib.build_harness(run)
    ch = versgen.chains(run)
    versgen.check_chains(run, exe, ch)
    K = 4 if quick else 6
    vecs = versgen.model(run, K)
    rnd = random.Random(run.seed)
    jobs = jobs_for(vecs, ch, K, versgen.SCHEMES)
    # second family of chains (other spellings: build metadata, prefixes, epochs, case; pypi pre-releases as bounds)
    ch2 = versgen.chains(run, chain=2)
    versgen.check_chains(run, exe, ch2)
    K2 = 3 if quick else 5
    vecs2 = versgen.model(run, K2, chain=2)
    jobs += [j for j in jobs_for(vecs2, ch2, K2, versgen.SCHEMES, prepos=versgen.PYPI_PREPOS2) if j["tag"] == "den"]
    # third family: chains anchored at the zero version (its pre-release, zero, the first version above it)
    ch3 = versgen.chains(run, chain=3)
    versgen.check_chains(run, exe, ch3)
    K3 = 3 if quick else 4
    vecs3 = versgen.model(run, K3, chain=3)
    jobs += [j for j in jobs_for(vecs3, ch3, K3, versgen.SCHEMES, prepos=versgen.PREPOS[3]) if j["tag"] == "den"]
    if not quick:
        # K = 8 by simulation-like sampling: random alternating shapes over 8 bounds (beyond the exhaustive bound)
        jobs += sampled_k8(ch, rnd, 400)
    judged = run_jobs(run, exe, jobs, "C04")
    run.extra["K_exhaustive"] = K
    run.extra["ranges"] = len(vecs)
    run.assumptions = ["bound and probe versions are the 17-version chains of Vers.tla (strictly increasing under the real Compare: re-checked on this run); "
                       "probe positions 0..2K cover the bounds, their neighbours, interior and exterior points",
                       "pypi pre-/dev-release probes are expected to be excluded (no chain member is a pre-release)"]
    return vlib.finish(run, rule="every well-formed VERS range with 1..K constraints over K bound positions (K=4 quick, 6 thorough) x 11 schemes x every probe position; plus vers:<scheme>/*",
                       exhaustive=True, judged=judged, min_judged=1000)

def sampled_k8(ch, rnd, n):
    """shapes with up to 8 constraints over 8 bound positions; the expectation is still computed by TLC (Den)"""
    ops_all = ["<", "<=", ">", ">=", "=", "!="]
    jobs = []
    while len(jobs) < n * len(versgen.SCHEMES):
        ops = [rnd.choice(ops_all + ["", ""]) for _ in range(8)]
        cs = [{"op": o, "pos": 2 * j + 1} for j, o in enumerate(ops) if o]
        if len(cs) < 5: continue
        r = [c for c in cs if c["op"] in ("<", "<=", ">", ">=")]
        if any((r[i]["op"][0] == ">") == (r[i + 1]["op"][0] == ">") for i in range(len(r) - 1)): continue
        for s in versgen.SCHEMES:
            text = "vers:%s/" % s + "|".join(c["op"] + ch[s][c["pos"]] for c in cs)
            jobs.append({"k": "vers", "scheme": s, "tag": "den", "text": text, "cs": cs,
                         "probes": [{"pos": p, "text": ch[s][p]} for p in range(0, 17)]})
    return jobs

def replay(d):
    print(json.dumps(d, indent=1)); return 0
