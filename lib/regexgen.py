"""Seeded supplement to the TLC universes (B2): sample strings from the regular expressions the
ecosystem parsers happen to contain. Purely a generator heuristic: it reads `regexp.MustCompile`
literals from the sources at run time; if a parser is refactored away from regular expressions the
supplement for that ecosystem is simply empty. Verdicts never depend on it."""
import os, re, random

NUMS = ["0", "1", "2", "9", "10", "11", "01", "007", "4294967296", "18446744073709551616", "00018446744073709551616", "99999999999999999999"]

class P:
    def __init__(self, s): self.s, self.i = s, 0
    def peek(self): return self.s[self.i] if self.i < len(self.s) else ""
    def eat(self): c = self.peek(); self.i += 1; return c

def parse_alt(p):
    alts = [parse_seq(p)]
    while p.peek() == "|":
        p.eat(); alts.append(parse_seq(p))
    return ("alt", alts)

def parse_seq(p):
    items = []
    while p.peek() not in ("", "|", ")"):
        a = parse_atom(p)
        if a is None: continue
        # quantifier
        c = p.peek()
        if c in "?*+":
            p.eat()
            if p.peek() == "?": p.eat()
            a = ("rep", a, 0 if c in "?*" else 1, 1 if c == "?" else 3)
        elif c == "{":
            j = p.s.index("}", p.i)
            body = p.s[p.i + 1:j]; p.i = j + 1
            if p.peek() == "?": p.eat()
            if "," in body:
                lo, hi = body.split(",")
                a = ("rep", a, int(lo or 0), min(int(hi), int(lo or 0) + 3) if hi else int(lo or 0) + 2)
            else:
                a = ("rep", a, int(body), int(body))
        items.append(a)
    return ("seq", items)

def parse_class(p):
    neg = False; chars = []
    if p.peek() == "^": p.eat(); neg = True
    first = True
    while p.peek() != "]" or first:
        first = False
        c = p.eat()
        if c == "\\":
            e = p.eat()
            if e == "d": chars += list("0123456789")
            elif e == "w": chars += list("abcxyzABC019_")
            elif e == "s": chars += [" "]
            else: chars.append(e)
        elif p.peek() == "-" and p.s[p.i + 1] != "]":
            p.eat(); hi = p.eat()
            rng = [chr(x) for x in range(ord(c), ord(hi) + 1)]
            # keep classes small but representative
            keep = [x for x in rng if x in "0129abcfxzABRCZ"] or rng[:3]
            chars += keep
        else:
            chars.append(c)
    p.eat()
    if neg:
        chars = [c for c in "0a.-+~_x1" if c not in chars]
    return ("cls", chars or ["0"])

def parse_atom(p):
    c = p.eat()
    if c == "(":
        if p.peek() == "?":
            p.eat()
            while p.peek() not in (":", ")"): p.eat()   # flags / non-capturing
            if p.peek() == ":": p.eat()
        a = parse_alt(p)
        if p.peek() == ")": p.eat()
        return a
    if c == "[": return parse_class(p)
    if c == "\\":
        e = p.eat()
        if e == "d": return ("digit",)
        if e == "w": return ("cls", list("abcxyzABC019_"))
        if e == "s": return ("cls", [" "])
        if e in "AzZbB": return None
        return ("lit", e)
    if c in "^$": return None
    if c == ".": return ("cls", list("0a.-+~1x"))
    return ("lit", c)

def gen(node, rnd):
    t = node[0]
    if t == "lit": return node[1]
    if t == "digit": return rnd.choice("0123456789")
    if t == "cls": return rnd.choice(node[1])
    if t == "seq": return "".join(gen(x, rnd) for x in node[1])
    if t == "alt": return gen(rnd.choice(node[1]), rnd)
    if t == "rep":
        inner = node[1]
        # a repeated digit is a number: draw it from the interesting numbers
        if inner == ("digit",) or (inner[0] == "cls" and set(inner[1]) <= set("0123456789")):
            if node[3] >= 3 and rnd.random() < 0.7: return rnd.choice(NUMS)
        return "".join(gen(inner, rnd) for _ in range(rnd.randint(node[2], max(node[2], node[3]))))
    return ""

def patterns(repo, eco, files=("version.go",)):
    out = []
    for f in files:
        path = os.path.join(repo, "pkg", "ecosystem", eco, f)
        if not os.path.exists(path): continue
        src = open(path, errors="replace").read()
        out += re.findall(r"regexp\.MustCompile\(`([^`]+)`\)", src)
    return out

def sample(repo, eco, rnd, n, files=("version.go",)):
    res = set()
    for pat in patterns(repo, eco, files):
        try:
            ast = parse_alt(P(pat))
        except Exception:
            continue
        for _ in range(n):
            try:
                s = gen(ast, rnd)
            except Exception:
                continue
            if 0 < len(s) < 120 and all(32 <= ord(c) < 127 for c in s):
                res.add(s)
    res = sorted(res)
    rnd.shuffle(res)
    return res[:n]

if __name__ == "__main__":
    import sys
    r = random.Random(1)
    for e in sys.argv[1:]:
        print(e, sample("/repo", e, r, 12))
