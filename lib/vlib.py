"""Shared machinery for the go-univers checks: scratch dirs, TLC runs, harness
build, vector/mismatch parsing, known-findings, evidence and verdicts.

Verdict policy (DESIGN 3.8): exit 0 = every judged observation matched the spec
(or an open known finding); exit 1 = a judged observation of go-univers did not;
exit 2 = anything that is not an observation of go-univers (TLC failure, harness
build failure of the harness itself, unreadable trace, vacuous run)."""
import json, os, re, shutil, subprocess, sys, time, hashlib, random

VERIF = os.path.dirname(os.path.dirname(os.path.abspath(__file__)))
REPO = os.environ.get("VERIF_REPO", "/repo")
SPEC = os.path.join(VERIF, "spec")
OUT = os.path.join(VERIF, "out")
TLA_CP = "/opt/veriftools/tla/tla2tools.jar:/opt/veriftools/tla/CommunityModules-deps.jar"
GOENV = dict(os.environ, GOFLAGS="-mod=mod", GOPROXY="off")
GOENV.pop("GOSUMDB", None)

class Infra(Exception):
    """Something that is not an observation of go-univers went wrong (exit 2)."""

def log(*a):
    print(*a, flush=True)

def seed():
    try:
        return int(os.environ.get("VERIF_SEED", "1"))
    except ValueError:
        return 1

class Run:
    """One check run: owns a scratch directory under /verif/out and the counters
    that end up in the evidence file."""
    def __init__(self, pid, tier):
        self.pid, self.tier, self.seed = pid, tier, seed()
        self.t0 = time.time()
        self.dir = os.path.join(OUT, "run.%s.%d" % (pid, os.getpid()))
        shutil.rmtree(self.dir, ignore_errors=True)
        os.makedirs(self.dir)
        self.states = 0
        self.transitions = 0
        self.trace_events = 0
        self.samples = []
        self.extra = {}
        self.violations = []      # list of dict
        self.known = {}           # finding id -> count
        self.assumptions = []
        self.tlc_cmds = []

    def path(self, name):
        return os.path.join(self.dir, name)

    def cleanup(self):
        shutil.rmtree(self.dir, ignore_errors=True)

# ---------------------------------------------------------------- harness
def build_harness(run, race=False):
    """Build the harness (and with it /repo's current working tree) with the
    verif tag. A compile error inside /repo is an observation of a broken tree,
    but not of a property: exit 2 with the compiler output."""
    os.makedirs(os.path.join(OUT, "bin"), exist_ok=True)
    # the binary lives in this run's own directory: checks may run side by side, and none may execute a file that
    # another one is linking at that moment (bin/setup builds out/bin/vh only to warm the Go build cache)
    exe = run.path("vh-race" if race else "vh")
    modflag = []
    if os.path.realpath(REPO) != "/repo":
        # development only (bin/mutcheck): build against a scratch copy of the repository
        mf = os.path.join(OUT, "bin", "go.%s.mod" % hashlib.md5(REPO.encode()).hexdigest()[:8])
        with open(mf, "w") as f:
            f.write(open(os.path.join(VERIF, "harness", "go.mod")).read().replace("=> /repo", "=> " + REPO))
        modflag = ["-modfile=" + mf]
    cmd = ["go", "build", "-tags", "verif"] + modflag + (["-race"] if race else []) + ["-o", exe, "."]
    p = subprocess.run(cmd, cwd=os.path.join(VERIF, "harness"), env=GOENV,
                       stdout=subprocess.PIPE, stderr=subprocess.STDOUT, text=True)
    if p.returncode != 0:
        raise Infra("harness build failed:\n" + p.stdout[-4000:])
    return exe

def build_cli(run):
    exe = run.path("univers")
    p = subprocess.run(["go", "build", "-tags", "verif", "-o", exe, "./cmd"], cwd=REPO, env=GOENV,
                       stdout=subprocess.PIPE, stderr=subprocess.STDOUT, text=True)
    if p.returncode != 0:
        raise Infra("cli build failed:\n" + p.stdout[-4000:])
    return exe

def run_harness(run, exe, jobs_path, events_path, timeout=1800, env=None):
    e = dict(os.environ)
    if env:
        e.update(env)
    p = subprocess.run([exe, "run", jobs_path, events_path], stdout=subprocess.PIPE,
                       stderr=subprocess.STDOUT, text=True, timeout=timeout, env=e)
    if p.returncode != 0:
        head = "\n".join(p.stdout.splitlines()[:40])
        raise Infra("harness failed (%d):\n%s\n...\n%s" % (p.returncode, head, p.stdout[-3000:]))
    return p.stdout

def write_ndjson(path, recs):
    with open(path, "w") as f:
        for r in recs:
            f.write(json.dumps(r, ensure_ascii=True, separators=(",", ":")) + "\n")

def read_ndjson(path):
    out = []
    with open(path) as f:
        for line in f:
            line = line.strip()
            if line:
                out.append(json.loads(line))
    return out

# ---------------------------------------------------------------- TLC
_stat_re = re.compile(r"^(\d+) states generated, (\d+) distinct states found")

_cov_re = re.compile(r"^<(\w+) line \d+, col \d+ to line \d+, col \d+ of module (\w+)>: (\d+):(\d+)$")
def tlc(run, module, cfg_text, name=None, workers=1, timeout=900, heap="6g", extra_args=(),
        simulate=None, count=True, coverage=False, extra_files=None, unfired_ok=()):
    """Run TLC on spec/<module>.tla with the given cfg text in a private copy of
    the spec directory. Returns (stdout lines). Raises Infra on any TLC error
    that is not a property/invariant report (those do not occur: judges print
    MISMATCH lines instead of failing)."""
    name = name or module
    d = run.path("tlc." + name)
    shutil.rmtree(d, ignore_errors=True)
    shutil.copytree(SPEC, d, ignore=shutil.ignore_patterns("states", "*.old", ".tlacache"))
    for fn, content in (extra_files or {}).items():
        with open(os.path.join(d, fn), "w") as f:
            f.write(content)
    cfg = os.path.join(d, module + ".cfg")
    with open(cfg, "w") as f:
        f.write(cfg_text)
    cmd = ["java", "-XX:+UseParallelGC", "-Xmx" + heap, "-Xss512m", "-cp", TLA_CP, "tlc2.TLC",
           "-workers", str(workers), "-metadir", os.path.join(d, "meta"), "-config", module + ".cfg"]
    if simulate:
        cmd += ["-simulate", simulate]
    if coverage:
        cmd += ["-coverage", "1"]
    cmd += list(extra_args) + [module + ".tla"]
    run.tlc_cmds.append(" ".join(cmd[5:]))
    outp = os.path.join(d, "tlc.out")
    t0 = time.time()
    with open(outp, "w") as fo:
        try:
            p = subprocess.run(cmd, cwd=d, stdout=fo, stderr=subprocess.STDOUT, timeout=timeout)
        except subprocess.TimeoutExpired:
            raise Infra("TLC timeout (%ds) on %s" % (timeout, name))
    lines = open(outp, errors="replace").read().splitlines()
    ok = any(l.startswith("Model checking completed. No error has been found.") for l in lines) or \
         (simulate and p.returncode in (0,)) 
    gen = dist = 0
    for l in lines:
        m = _stat_re.match(l)
        if m:
            gen, dist = int(m.group(1)), int(m.group(2))
    if count:
        run.states += dist
        run.transitions += gen
    if not ok:
        errs = [l for l in lines if l.startswith("Error:")][:6]
        tail = [l for l in lines if not l.startswith('<<"')][-40:]
        raise Infra("TLC did not complete cleanly on %s (exit %d):\n%s\n...\n%s" % (name, p.returncode, "\n".join(errs), "\n".join(tail)))
    shutil.rmtree(os.path.join(d, "meta"), ignore_errors=True)
    if coverage:
        # vacuity guard: with -coverage 1 TLC prints <Action line .. of module M>: distinct:generated for every
        # action of the next-state relation; an action that never fired means its part of the model was never
        # exercised, so whatever was "checked" about it is vacuous (exit 2, never a pass)
        acts = {}
        for l in lines:
            m = _cov_re.match(l)
            if m and m.group(1) not in ("Init",):
                acts[m.group(1)] = acts.get(m.group(1), 0) + int(m.group(4))
        never = sorted(a for a, g in acts.items() if g == 0 and a not in unfired_ok and not a.endswith("Init"))
        run.extra.setdefault("action_coverage", {})[name] = {a: g for a, g in sorted(acts.items()) if not a.endswith("Init")}
        if never:
            raise Infra("vacuous model run %s: action(s) never taken: %s" % (name, ", ".join(never)))
    return lines, (gen, dist), time.time() - t0

def tagged(lines, tag):
    """Decode lines of the form <<"TAG", "<tla string literal holding JSON>">>."""
    pre = '<<"%s", "' % tag
    out = []
    for l in lines:
        if l.startswith(pre) and l.endswith('">>'):
            lit = l[len(pre) - 1:-2]
            try:
                out.append(json.loads(json.loads(lit)))
            except Exception as e:
                raise Infra("cannot decode %s line: %r (%s)" % (tag, l[:200], e))
    return out

def cfg_consts(**kw):
    def val(v):
        if isinstance(v, str):
            return json.dumps(v)
        if isinstance(v, bool):
            return "TRUE" if v else "FALSE"
        if isinstance(v, (set, frozenset, list, tuple)) and not isinstance(v, tuple):
            return "{" + ", ".join(val(x) for x in sorted(v)) + "}"
        return str(v)
    return "".join("CONSTANT %s = %s\n" % (k, val(v)) for k, v in kw.items())

def judge(run, events_path, prop, name=None, timeout=1800, heap="6g", consts=None):
    """Validate a recorded trace against UniversTrace.tla. Returns the list of
    mismatch records. The trace must be consumed completely (postcondition),
    otherwise the run is not believed (Infra)."""
    n = sum(1 for _ in open(events_path))
    c = dict(TraceFile=events_path, Prop=prop, OpenFindings=set(open_findings(prop)) or {"none"})
    if consts:
        c.update(consts)
    cfg = cfg_consts(**c) + "INIT TInit\nNEXT TNext\nPOSTCONDITION TraceAccepted\nCHECK_DEADLOCK FALSE\n"
    lines, (gen, dist), dt = tlc(run, "UniversTrace", cfg, name=name or ("judge." + prop), workers=1,
                                 timeout=timeout, heap=heap, count=False)
    if dist != n + 1:
        raise Infra("trace not fully consumed: %d events, %d states" % (n, dist))
    run.trace_events += n
    run.states += dist
    run.transitions += gen
    if not name or not name.startswith("selftest"):
        run.__dict__.setdefault("judged_traces", []).append((events_path, prop))
    mm = tagged(lines, "MISMATCH")
    for m in mm:
        m["_trace"] = events_path
    return mm, tagged(lines, "INFO")

# ---------------------------------------------------------------- universes
def universe(run, ecos=None):
    """B1: explore the grammar automata of Universe.tla with TLC; every accepting
    state is one vector. Returns {eco: [(text, part)]} sorted for determinism."""
    allE = ["alpine", "alpm", "apache", "cargo", "composer", "conan", "cran", "debian", "gem", "gentoo",
            "github", "golang", "hex", "mattermost", "maven", "npm", "nuget", "pypi", "rpm", "semver"]
    ecos = ecos or allE
    cfg = cfg_consts(E=set(ecos)) + "INIT Init\nNEXT Next\nINVARIANT Emit\nCHECK_DEADLOCK FALSE\n"
    lines, st, dt = tlc(run, "MC_Universe", cfg, workers=8, timeout=600)
    u = {e: [] for e in ecos}
    for v in tagged(lines, "VEC"):
        u[v["eco"]].append((v["text"], v["part"]))
    for e in u:
        u[e] = sorted(set(u[e]))
        if not u[e]:
            raise Infra("empty universe for " + e)
    return u

def token_universe(run, exe, ecos, L, cap=None, rnd=None):
    """B1, small scope: every token sequence of length <= L after a stem (Tokens.tla), filtered by the real parser.
    Returns {eco: [accepted texts]} (sorted; capped by a seeded sample when cap is given) and the candidate counts."""
    cfg = cfg_consts(TE=set(ecos), TL=L, TMode="v") + "INIT Init\nNEXT Next\nINVARIANT Emit\nCHECK_DEADLOCK FALSE\n"
    lines, st, dt = tlc(run, "MC_Tokens", cfg, name="tokens.L%d" % L, workers=8, timeout=1800, heap="8g")
    cand = {e: set() for e in ecos}
    for v in tagged(lines, "VEC"):
        cand[v["eco"]].add(v["text"])
    acc = accept_filter(run, exe, {e: sorted(cand[e]) for e in ecos}, name="tok")
    counts = {e: [len(cand[e]), len(acc[e])] for e in ecos}
    if cap:
        rnd = rnd or random.Random(seed())
        acc = {e: (sorted(rnd.sample(acc[e], cap)) if len(acc[e]) > cap else acc[e]) for e in ecos}
    return acc, counts

def range_token_texts(run, ecos, L):
    """every sequence of at most L range tokens per ecosystem (Tokens.tla, TMode = "r"): {eco: [texts]}, unfiltered"""
    cfg = cfg_consts(TE=set(ecos), TL=L, TMode="r") + "INIT Init\nNEXT Next\nINVARIANT Emit\nCHECK_DEADLOCK FALSE\n"
    lines, st, dt = tlc(run, "MC_Tokens", cfg, name="rtokens.L%d" % L, workers=8, timeout=1800, heap="8g")
    out = {e: set() for e in ecos}
    for v in tagged(lines, "VEC"):
        out[v["eco"]].add(v["text"])
    return {e: sorted(out[e]) for e in ecos}

def tla_str(t):
    return '"' + t.replace("\\", "\\\\").replace('"', '\\"') + '"'

def tla_fun_of_seqs(name, d):
    """TLA+ definition name == (k1 :> <<...>>) @@ ... for a dict of string lists"""
    items = ["(%s :> <<%s>>)" % (tla_str(k), ", ".join(tla_str(x) for x in v)) for k, v in sorted(d.items())]
    return "%s == %s\n" % (name, " @@ ".join(items))

def accepted(run, exe, U, regex_extra=0, rnd=None, tokens=0, tokens_cap=300):
    """ask the real parser which universe members it accepts: {eco: [texts]} (order kept). With
    regex_extra > 0 the candidates are widened (B2) by strings sampled from the regular expressions
    found in the parsers' sources (lib/regexgen.py)."""
    import regexgen
    extra = {e: (regexgen.sample(REPO, e, rnd or random.Random(seed()), regex_extra) if regex_extra else []) for e in U}
    jobs = [{"k": "accept", "eco": e, "texts": [t for t, _ in U[e]] + [x for x in extra[e] if x not in dict(U[e])]} for e in sorted(U)]
    jp, ep = run.path("acc.jobs"), run.path("acc.ev")
    write_ndjson(jp, jobs)
    run_harness(run, exe, jp, ep)
    out = {}
    for ev in read_ndjson(ep):
        out[ev["eco"]] = [t for t, ok in zip(ev["texts"], ev["ok"]) if ok]
    if tokens:
        # plus a seeded sample of the small-scope token universe (Tokens.tla), already filtered by the parser
        tok, _ = token_universe(run, exe, sorted(U), tokens, cap=tokens_cap, rnd=rnd or random.Random(seed()))
        for e in out:
            have = set(out[e])
            out[e] += [t for t in tok.get(e, []) if t not in have]
    return out

BOUNDARY = [0, 9, 10, 255, 256, 65535, 65536, 65537, 99999, 1000000000, 2147483647, 2147483648, 4294967295, 4294967296,
            20240115, 9007199254740993, 9223372036854775807, 9223372036854775808, 18446744073709551616]
def boundary_variants(text, rnd, k):
    """spellings of `text` with one digit run replaced by a number at which fixed-width keys change behaviour,
    and with two runs replaced (a small number and a boundary number): neighbours of the text in the order"""
    runs = list(re.finditer(r"[0-9]+", text))
    out = []
    for _ in range(k * 3):
        if not runs or len(out) >= k: break
        m = rnd.choice(runs)
        v = text[:m.start()] + str(rnd.choice(BOUNDARY)) + text[m.end():]
        if len(runs) > 1 and rnd.random() < 0.5:
            rs = list(re.finditer(r"[0-9]+", v)); m2 = rnd.choice(rs)
            v = v[:m2.start()] + str(rnd.choice([0, 0, 1, 9])) + v[m2.end():]
        if v != text and v not in out: out.append(v)
    return out

def accept_filter(run, exe, cands, name="accx"):
    """{eco: [texts]} -> the same, keeping only texts the real version parser accepts"""
    jobs = [{"k": "accept", "eco": e, "texts": list(dict.fromkeys(cands[e]))} for e in sorted(cands) if cands[e]]
    jp, ep = run.path(name + ".jobs"), run.path(name + ".ev")
    write_ndjson(jp, jobs); run_harness(run, exe, jp, ep)
    out = {e: [] for e in cands}
    for ev in read_ndjson(ep):
        out[ev["eco"]] = [t for t, ok in zip(ev["texts"], ev["ok"]) if ok]
    return out

# letters whose case mappings are irregular (two lower-case letters in one fold orbit, a lower case of another length,
# no case at all) next to their ASCII relatives and a letter that sorts between them
UNI_GROUPS = [["s", "t", "\u017f", "S"],                       # long s: folds with s, lower-cases to itself
              ["\u00b5", "\u00e9", "\u03bc", "\u039c"],          # micro sign / mu: one fold orbit, two lower-case letters
              ["k", "l", "\u212a", "K"],                       # Kelvin sign lower-cases to k
              ["i", "j", "\u0131", "\u0130"],                  # dotless i, dotted capital I (lower case of another length)
              ["\u00df", "\u1e9e", "ss", "st"],                  # sharp s
              ["9", "\u0660", "\uff11", "a"],                   # digits outside ASCII
              ["\u01c4", "\u01c5", "\u01c6", "z"]]              # a title-case digraph
def unicode_families(run, exe, acc, rnd, per_eco=4, size=5, name="uni"):
    """B2, non-ASCII texts: in accepted members that contain an ASCII letter, replace that one character by each member of
    a group of UNI_GROUPS (letters with irregular case mappings, their ASCII relatives and a letter that sorts between
    them) and keep what the real parser accepts. Returns {eco: [family, ...]}; a family is the original plus the accepted
    spellings of one group. Ecosystems whose grammars are ASCII only yield nothing."""
    import re
    cands = {}; fams = {}
    for e in sorted(acc):
        pool = [t for t in acc[e] if re.search(r"[A-Za-z]", t) and len(t) < 30 and t.isascii()]
        fams[e] = []
        # conventional shapes first (number, separator, word, optional number): the order laws are claimed on those
        conv = re.compile(r"^[vV]?\d+(\.\d+)*[-._~+][A-Za-z]+([-._]?\d+)?$")
        cand = rnd.sample(pool, min(len(pool), per_eco * 6))
        cand = ([t for t in cand if conv.match(t)] + [t for t in cand if not conv.match(t)])[:per_eco * 2]
        for k, t in enumerate(cand):
            pos = rnd.choice([m.start() for m in re.finditer(r"[A-Za-z]", t)])
            g = UNI_GROUPS[([0, 1, 0, 1] + list(range(2, len(UNI_GROUPS))))[k % (len(UNI_GROUPS) + 2)]]     # the first two groups always, on two texts each
            fams[e].append((t, [t[:pos] + u + t[pos + 1:] for u in g]))
        cands[e] = [x for _, f in fams[e] for x in f]
    ok = accept_filter(run, exe, cands, name=name)
    out = {}
    for e in fams:
        oks = set(ok.get(e, [])); out[e] = []
        for t, f in fams[e]:
            keep = [x for x in f if x in oks]
            if all(x.isascii() for x in keep): continue
            # the original comes last and only fills up: a family is judged as a whole, and the group holds ASCII members
            out[e].append(list(dict.fromkeys(keep + [t]))[:max(size - 1, len(keep))][:size])
            if len(out[e]) >= per_eco: break
    return out

def part_of(eco, text):
    """the partition label of Universe.tla (Part): alpm versions with an explicit pkgrel - in go-univers' reading
    (Alpm!ASplit.hasRel) the digits after a final '-' - are only comparable among themselves, and versions without one among themselves; every other ecosystem has one class.
    Computed from the text so that it also holds for members that do not come from Universe.tla."""
    if eco != "alpm" or "-" not in text:
        return 0
    # 1: the text ends in "-<digits>" (a pkgrel in go-univers' reading and in libalpm's); 2: a hyphen followed by
    # something else (part of the pkgver for go-univers, a pkgrel for libalpm's parseEVR): a class of its own, so that
    # the label does not depend on which of the two readings an implementation follows
    return 1 if re.search(r"-[0-9]+$", text.strip()) else 2

def stratified(members, n, rnd):
    """seeded sample that covers as many distinct *shapes* as possible: members are grouped by their
    shape signature (digit runs -> 9, letter runs -> a) and picked round-robin over the groups"""
    groups = {}
    for m in members:
        sig = re.sub(r"[A-Za-z]+", "a", re.sub(r"\d+", "9", m))
        groups.setdefault(sig, []).append(m)
    keys = sorted(groups); rnd.shuffle(keys)
    for k in keys: rnd.shuffle(groups[k])
    out = []; i = 0
    while len(out) < n and any(groups[k] for k in keys):
        k = keys[i % len(keys)]
        if groups[k]: out.append(groups[k].pop())
        i += 1
    return out

def pick(members, n, rnd):
    """Deterministic (seeded) sub-universe of at most n members."""
    if len(members) <= n:
        return list(members)
    idx = sorted(rnd.sample(range(len(members)), n))
    return [members[i] for i in idx]

# ---------------------------------------------------------------- known findings
def findings():
    out = []
    p = os.path.join(VERIF, "known-findings.txt")
    if not os.path.exists(p):
        return out
    for line in open(p):
        line = line.strip()
        if not line or line.startswith("#"):
            continue
        kind, _, rest = line.partition(":")
        d = {"kind": kind.strip(), "raw": line}
        for m in re.finditer(r'(\w+)=("(?:[^"\\]|\\.)*"|\S+)', rest):
            v = m.group(2)
            d[m.group(1)] = json.loads(v) if v.startswith('"') else v
        out.append(d)
    return out

def open_findings(prop):
    return [f["id"] for f in findings() if f["kind"] == "finding" and f.get("property") == prop]

# ---------------------------------------------------------------- verdict
def locate(trace, evidx):
    """the recorded event that produced a mismatch and the job line it came from (for replay)"""
    if not trace or not evidx or not os.path.exists(trace):
        return None, None
    event = None
    with open(trace) as f:
        for i, line in enumerate(f, 1):
            if i == evidx:
                event = json.loads(line); break
    if event is None:
        return None, None
    if event.get("k") == "cli":
        return {"k": "cli", "runs": [{"tag": event.get("tag", ""), "argv": event["argv"]}]}, shrink(event)
    jobs = trace.replace("/ev", "/jobs") if "/ev" in os.path.basename("/" + os.path.basename(trace)) else None
    jp = os.path.join(os.path.dirname(trace), os.path.basename(trace).replace("ev", "jobs", 1))
    job = None
    if os.path.exists(jp) and jp != trace:
        lines = [l for l in open(jp) if l.strip()]
        # job lines and event lines correspond 1:1 unless a job expands into several events (cli, total)
        cand = [json.loads(l) for l in lines]
        if len(cand) >= evidx and all(c.get("k") not in ("cli", "total") for c in cand[:evidx]):
            job = cand[evidx - 1]
    if job is None and event.get("k") == "total":
        job = {"k": "total", "tag": event.get("tag", ""), "inputs": [event["bytes"]]} if event.get("n", 0) <= 64 else None
    return job, shrink(event)

def shrink(ev):
    s = json.dumps(ev)
    return ev if len(s) < 200000 else {"k": ev.get("k"), "note": "event too large to embed (%d bytes)" % len(s)}

def replay_generic(d):
    """re-execute the recorded job against the current tree and let TLC judge it again"""
    pid = d["property"]
    job = d.get("job")
    if not job:
        log("replay file has no job; case: " + json.dumps(d.get("case"))[:400]); return 2
    run = Run(pid, "quick")
    try:
        exe = build_harness(run, race=False)
        env = {"VERIF_CLI": build_cli(run)} if job.get("k") == "cli" else None
        jp, ep = run.path("replay.jobs"), run.path("replay.ev")
        write_ndjson(jp, [job]); run_harness(run, exe, jp, ep, env=env)
        mm, info = judge(run, ep, pid, name="replay")
        viol = [m for m in mm if not m.get("known")]
        for m in mm:
            m.pop("_trace", None)
            log(("KNOWN " if m.get("known") else "VIOLATION-DETAIL ") + json.dumps(m)[:600])
        log("replay %s: %d violating observation(s)" % (pid, len(viol)))
        return 1 if viol else 0
    except Infra as e:
        log("INFRA: %s" % e); return 2
    finally:
        run.cleanup()

def apalache(run, module, cinit, inv, length=0, timeout=1800):
    """Symbolic check of a design-level lemma with Apalache (SMT): no enumeration of the initial states.
    Anything but 'NoError' is exit 2 (a refuted lemma means the specification is wrong, not the code)."""
    d = run.path("apa." + module)
    shutil.rmtree(d, ignore_errors=True); os.makedirs(d)
    shutil.copy(os.path.join(SPEC, module + ".tla"), d)
    cmd = ["apalache-mc", "check", "--cinit=" + cinit, "--inv=" + inv, "--length=%d" % length, "--out-dir=" + os.path.join(d, "out"), module + ".tla"]
    t0 = time.time()
    try:
        p = subprocess.run(cmd, cwd=d, stdout=subprocess.PIPE, stderr=subprocess.STDOUT, text=True, timeout=timeout)
    except subprocess.TimeoutExpired:
        raise Infra("apalache timeout (%ds) on %s" % (timeout, module))
    run.tlc_cmds.append(" ".join(cmd[:5]) + " " + module + ".tla")
    if "The outcome is: NoError" not in p.stdout:
        raise Infra("apalache did not confirm %s of %s:\n%s" % (inv, module, p.stdout[-2000:]))
    return round(time.time() - t0, 1)

# ---------------------------------------------------------------- binding self-test
def corrupt_event(ev, prop):
    """One recorded field of one observation event changed into an answer the property forbids (or None when this
    event offers no such field). Used only by binding_selftest: the trace specification must reject the result."""
    e = json.loads(json.dumps(ev)); k = e.get("k")
    if k == "matrix" and e.get("n", 0) >= 2:
        n = min(e["n"], 24)
        e["n"] = n; e["texts"] = e["texts"][:n]; e["part"] = e["part"][:n]; e["m"] = [r[:n] for r in e["m"][:n]]
        e["rejected"] = 0; e["rejtexts"] = []; e["panics"] = []
        if prop == "C01":
            for i in range(n):
                for j in range(i + 1, n):
                    if e["part"][i] == e["part"][j]:
                        e["m"][i][j] = 1; e["m"][j][i] = 1     # both greater than the other
                        return e, "m[%d][%d] and m[%d][%d] both set to 1" % (i, j, j, i)
            return None
        e["m"] = [[-x for x in r] for r in e["m"]]             # the reversed order
        return e, "every sign of the matrix negated"
    if k in ("range", "short") and e.get("parsed") and e.get("contains"):
        e["contains"][0] = not e["contains"][0]; return e, "contains[0] flipped"
    if k == "cmp" and e.get("acca") and e.get("accb") and not e.get("panic"):
        e["got"] = -e["want"] if e["want"] else 1; return e, "got replaced"
    if k == "vers" and e.get("probes") and e.get("tag") != "star":
        e["probes"][0]["ok"] = not e["probes"][0]["ok"]; return e, "probes[0].ok flipped"
    if k == "total" and e.get("v") and prop == "C06":
        key = sorted(e["v"])[0]; e["v"][key] = 2; return e, "outcome code of %s set to 2 (value and error)" % key
    if k == "cli" and prop == "C15" and e.get("exit") in (0, 1) and not e.get("hang"):
        e["exit"] = 1 - e["exit"]; return e, "exit status flipped"
    if k == "sortset" and e.get("outs") and len(e["outs"][0]) >= 2:
        e["outs"][0] = e["outs"][0][1:]; return e, "one element dropped from the first output"
    if k == "versvar" and e.get("res") and e["res"][0]:
        e["res"][0][0] = 1 - (e["baseres"][0] % 2) if e["baseres"][0] < 2 else 0; return e, "res[0][0] changed"
    if k == "verswf" and not e.get("text", "").endswith("/*") and not e.get("panics"):
        e["err"] = not e["err"]; e["ok"] = False; return e, "err flipped"
    if k == "roundtrip" and e.get("acc"):
        e["str"] = e["str"] + [120]; return e, "an x appended to the recorded String()"
    if k == "conc" and e.get("results"):
        r = dict(e["results"][0]); r["res"] = r["res"] + "#"; e["results"].append(r); return e, "a second, different result added for one key"
    if k == "members" and e.get("ranges"):
        n = e["n"]
        for i in range(n):
            for j in range(i + 1, n):
                if e["part"][i] == e["part"][j] and e["m"][i][j] == 0 and e["m"][j][i] == 0:
                    for r in e["ranges"]:
                        if r.get("parsed") and len(r["contains"]) == n:
                            r["contains"][i] = not r["contains"][j]
                            e["ranges"] = [r]
                            return e, "membership of one of two equal versions flipped"
    return None

def binding_selftest(run):
    """Demonstrate, on this run's own recorded trace, that the trace specification is bound to the observations:
    one recorded field is corrupted and TLC must report a mismatch. An accepted corruption means the judge is
    vacuous for this property (exit 2), whatever the real trace said."""
    tried = 0
    for path, prop in run.__dict__.get("judged_traces", []):
        for ev in read_ndjson(path):
            c = corrupt_event(ev, prop)
            if not c: continue
            tried += 1
            tp = run.path("selftest%d.ev" % tried)
            write_ndjson(tp, [c[0]])
            st0, tr0, te0 = run.states, run.transitions, run.trace_events
            mm, _ = judge(run, tp, prop, name="selftest%d" % tried, heap="3g")
            run.states, run.transitions, run.trace_events = st0, tr0, te0
            if any(not m.get("known") for m in mm):
                run.extra["binding_selftest"] = {"event_kind": ev.get("k"), "corruption": c[1], "rejected_by_trace_spec": True, "events_tried": tried}
                return
            if tried >= 40: break
        if tried >= 40: break
    if tried == 0:
        run.extra["binding_selftest"] = {"events_tried": 0, "note": "no event of this run offers a corruptible field"}
        return
    raise Infra("binding self-test failed: %d corrupted events were all accepted by the trace specification" % tried)

def finish(run, level="model_checking", rule="", exhaustive=False, judged=None, min_judged=1):
    """Write evidence, print verdict lines, return the exit code."""
    binding_selftest(run)
    wall = time.time() - run.t0
    cov = {
        "states": max(run.states, 0),
        "transitions": max(run.transitions, 0),
        "traces_validated_against_impl": run.trace_events,
        "samples": run.samples[:12] or ["(none)"],
        "rule": rule,
        "exhaustive": exhaustive,
        "checker_cmd": "; ".join(run.tlc_cmds[:6]),
    }
    cov.update(run.extra)
    if judged is not None:
        cov["evaluations"] = judged
    ev = {
        "property_id": run.pid, "tier": run.tier, "seed": run.seed, "level": level,
        "coverage": cov, "assumptions": run.assumptions, "wall_s": round(wall, 2),
        "violations": len(run.violations),
        "known_findings_hit": run.known,
    }
    # evidence is only ever written by runs against /repo itself; development runs against a scratch copy
    # (bin/mutcheck, VERIF_REPO) write theirs under out/
    evdir = os.path.join(VERIF, "evidence") if os.path.realpath(REPO) == "/repo" else os.path.join(OUT, "evidence.scratch")
    os.makedirs(evdir, exist_ok=True)
    with open(os.path.join(evdir, run.pid + ".json"), "w") as f:
        json.dump(ev, f, indent=1, sort_keys=True)
        f.write("\n")
    for fid, cnt in sorted(run.known.items()):
        f = [x for x in findings() if x.get("id") == fid]
        what = f[0].get("witness", "") if f else ""
        log("KNOWN-FINDING: property=%s %s (%d observations) %s" % (run.pid, fid, cnt, what))
    code = 0
    if run.violations:
        rdir = os.path.join(OUT, "replay" if os.path.realpath(REPO) == "/repo" else "replay.scratch")
        os.makedirs(rdir, exist_ok=True)
        # group violations into at most 5 replay files
        for i, v in enumerate(run.violations[:5]):
            rp = os.path.join(rdir, "%s-%d.json" % (run.pid, i))
            v = dict(v)
            job, event = locate(v.pop("_trace", None), v.get("evidx"))
            with open(rp, "w") as f:
                json.dump({"property": run.pid, "tier": run.tier, "seed": run.seed, "case": v, "job": job, "event": event}, f, indent=1)
            log("VIOLATION property=%s replay=%s" % (run.pid, rp))
            log("  detail: " + json.dumps(v)[:600])
        if len(run.violations) > 5:
            log("  (+%d further violating observations)" % (len(run.violations) - 5))
        code = 1
    elif judged is not None and judged < min_judged:
        log("vacuous run: judged=%s" % judged)
        code = 2
    log("%s %s tier=%s seed=%d states=%d events=%d judged=%s violations=%d wall=%.1fs" % (
        "PASS" if code == 0 else ("FAIL" if code == 1 else "INFRA"), run.pid, run.tier, run.seed,
        run.states, run.trace_events, judged, len(run.violations), wall))
    return code
