"""C13 — RubyGems orders as Gem::Version (reference: spec/GemVersion.tla)."""
import refcheck

WORDS = ["a", "b", "rc", "beta", "alpha", "pre", "x", "z", "dev"]
def gen(rnd):
    n = rnd.choice([1, 2, 3, 3, 3, 4])
    s = ".".join(str(rnd.choice([0, 0, 1, 1, 2, 10, 11])) for _ in range(n))
    for _ in range(rnd.choice([0, 0, 1, 1, 2, 3])):
        w = rnd.choice(WORDS)
        c = rnd.random()
        if c < 0.35: s += "." + w + rnd.choice(["", "1", "2", "10", "0"])
        elif c < 0.6: s += "." + w + "." + str(rnd.choice([0, 1, 2, 10]))
        elif c < 0.8: s += "-" + w + rnd.choice(["", ".1", ".2", "1", ".0"])
        else: s += "." + str(rnd.choice([0, 1, 2]))
    return s
def seeded(U, rnd, quick):
    jobs = []
    for r in range(4 if quick else 120):
        texts = set()
        while len(texts) < 150: texts.add(gen(rnd))
        jobs.append({"k": "matrix", "eco": "gem", "tag": "seeded", "texts": sorted(texts), "part": []})
    return jobs

def check(run):
    return refcheck.run_ref(run, "C13", ["gem"], (1050, 8000), seeded_fn=seeded,
        rule="pairs of members matching RubyGems' own version pattern (single letter case) within blocks of <=350 members of the TLC-generated universe + seeded versions with 1-6 segments; judged by GemVersion.tla",
        assumptions=["GemVersion.tla transcribes Gem::Version#<=> / canonical_segments of RubyGems 3.x; audited only by RubyGems' own test chains (ASSUMEs evaluated on every run); no ruby on this image"])
