"""Spec audits (DESIGN 3.3): run TLC's reference operators against executable
references that happen to be on this image. Never a verdict on go-univers:
a disagreement is exit 2 ("spec suspect")."""
import subprocess, random, json, os, concurrent.futures as cf
import vlib

def dpkg_cmp(a, b):
    def t(op):
        return subprocess.run(["dpkg", "--compare-versions", a, op, b], stderr=subprocess.PIPE).returncode
    lt = subprocess.run(["dpkg", "--compare-versions", a, "lt", b], stderr=subprocess.PIPE)
    if lt.stderr.strip():
        return None          # dpkg warns: invalid version
    if lt.returncode == 0: return -1
    gt = subprocess.run(["dpkg", "--compare-versions", a, "gt", b], stderr=subprocess.PIPE)
    return 1 if gt.returncode == 0 else 0

def audit_pairs(run, prop, texts, pairfn, npairs, rnd):
    """texts: list of strings; pairfn(a,b)->sign or None (reference rejects)."""
    pairs = [(rnd.randrange(len(texts)), rnd.randrange(len(texts))) for _ in range(npairs)]
    with cf.ThreadPoolExecutor(max_workers=16) as ex:
        res = list(ex.map(lambda p: pairfn(texts[p[0]], texts[p[1]]), pairs))
    used = [[i + 1, j + 1, r] for (i, j), r in zip(pairs, res) if r is not None]
    rejected = sum(1 for r in res if r is None)
    # only texts the reference accepted may be judged; restrict texts to used ones
    idx = sorted({i for i, _, _ in used} | {j for _, j, _ in used})
    remap = {old: k + 1 for k, old in enumerate(idx)}
    ev = {"k": "audit", "texts": [texts[i - 1] for i in idx], "pairs": [[remap[i], remap[j], r] for i, j, r in used]}
    ep = run.path("audit.ndjson")
    vlib.write_ndjson(ep, [ev])
    mm, info = vlib.judge(run, ep, prop, name="audit")
    return len(used), rejected, mm

def main(pid):
    run = vlib.Run(pid, "quick")
    rnd = random.Random(vlib.seed())
    try:
        if pid == "C10":
            import check_c10
            U = vlib.universe(run, ["debian"])
            texts = [t for t, _ in U["debian"]]
            for j in check_c10.seeded(U, rnd, False)[:10]:
                texts += j["texts"]
            texts = sorted(set(texts))
            n, rej, mm = audit_pairs(run, "C10", texts, dpkg_cmp, 6000, rnd)
        else:
            print("no audit for", pid); return 2
        scope = [m for m in mm if m["why"] == "audit-scope"]
        bad = [m for m in mm if m["why"] == "audit"]
        print("audit %s: %d pairs agreed-or-judged, %d rejected by the reference, %d disagreements, %d texts valid for the reference but out of spec scope"
              % (pid, n, rej, len(bad), len(scope)))
        for m in (bad + scope)[:20]: print("  ", m)
        return 2 if bad else 0
    finally:
        run.cleanup()
