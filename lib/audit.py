"""Spec audits (DESIGN 3.3): run TLC's reference operators against executable
references that happen to be on this image. Never a verdict on go-univers:
a disagreement is exit 2 ("spec suspect")."""
import subprocess, random, json, os, concurrent.futures as cf
import vlib

def dpkg_cmp(a, b):
    def t(op):
        return subprocess.run(["dpkg", "--compare-versions", a, op, b], stderr=subprocess.PIPE).returncode
    lt = subprocess.run(["dpkg", "--compare-versions", a, "lt", b], stderr=subprocess.PIPE)
    if lt.stderr.strip():
        return None          # dpkg warns: invalid version
    if lt.returncode == 0: return -1
    gt = subprocess.run(["dpkg", "--compare-versions", a, "gt", b], stderr=subprocess.PIPE)
    return 1 if gt.returncode == 0 else 0

def batch_ref(cmd, pairs_text):
    """run a reference driver reading 'a\tb' lines and printing one sign per line"""
    p = subprocess.run(cmd, input="".join("%s\t%s\n" % ab for ab in pairs_text), stdout=subprocess.PIPE,
                       stderr=subprocess.PIPE, text=True)
    if p.returncode != 0:
        raise vlib.Infra("reference driver failed: " + p.stderr[-2000:])
    out = p.stdout.split("\n")[:len(pairs_text)]
    return [None if o.strip() in ("", "E") else int(o) for o in out]

MVN_JAR = "/usr/share/maven/lib/maven-artifact-3.x.jar"
def maven_driver():
    import os
    d = os.path.join(vlib.OUT, "audit")
    os.makedirs(d, exist_ok=True)
    if not os.path.exists(os.path.join(d, "MvnCmp.class")):
        p = subprocess.run(["javac", "-cp", MVN_JAR, "-d", d, os.path.join(vlib.VERIF, "audit", "MvnCmp.java")],
                           stdout=subprocess.PIPE, stderr=subprocess.STDOUT, text=True)
        if p.returncode != 0:
            raise vlib.Infra("javac failed: " + p.stdout)
    return ["java", "-cp", MVN_JAR + ":" + d, "MvnCmp"]

def audit_pairs(run, prop, texts, pairfn, npairs, rnd):
    """texts: list of strings; pairfn(a,b)->sign or None (reference rejects)."""
    pairs = [(rnd.randrange(len(texts)), rnd.randrange(len(texts))) for _ in range(npairs)]
    if isinstance(pairfn, list):
        res = batch_ref(pairfn, [(texts[i], texts[j]) for i, j in pairs])
    else:
        with cf.ThreadPoolExecutor(max_workers=16) as ex:
            res = list(ex.map(lambda p: pairfn(texts[p[0]], texts[p[1]]), pairs))
    used = [[i + 1, j + 1, r] for (i, j), r in zip(pairs, res) if r is not None]
    rejected = sum(1 for r in res if r is None)
    # only texts the reference accepted may be judged; restrict texts to used ones
    idx = sorted({i for i, _, _ in used} | {j for _, j, _ in used})
    remap = {old: k + 1 for k, old in enumerate(idx)}
    ev = {"k": "audit", "eco": getattr(run, "audit_eco", ""), "texts": [texts[i - 1] for i in idx], "pairs": [[remap[i], remap[j], r] for i, j, r in used]}
    ep = run.path("audit.ndjson")
    vlib.write_ndjson(ep, [ev])
    mm, info = vlib.judge(run, ep, prop, name="audit")
    return len(used), rejected, mm

def audit_fixture(run, prop, path):
    """a published table of lines 'a <|=|> b' as the audit (apk-tools version.data)"""
    texts, pairs = [], []
    idx = {}
    def ix(t):
        if t not in idx:
            idx[t] = len(texts) + 1; texts.append(t)
        return idx[t]
    for line in open(path):
        line = line.split("#")[0].strip()
        if not line: continue
        parts = line.split(" ")
        if len(parts) != 3 or parts[1] not in "<=>": continue
        if not all(32 < ord(c) < 127 for c in parts[0] + parts[2]): continue
        pairs.append([ix(parts[0]), ix(parts[2]), {"<": -1, "=": 0, ">": 1}[parts[1]]])
    ev = {"k": "audit", "eco": "alpine", "texts": texts, "pairs": pairs}
    ep = run.path("audit.ndjson")
    vlib.write_ndjson(ep, [ev])
    mm, info = vlib.judge(run, ep, prop, name="audit")
    return len(pairs), 0, mm

def main(pid):
    run = vlib.Run(pid, "quick")
    rnd = random.Random(vlib.seed())
    try:
        if pid == "C10":
            import check_c10
            U = vlib.universe(run, ["debian"])
            texts = [t for t, _ in U["debian"]]
            for j in check_c10.seeded(U, rnd, False)[:10]:
                texts += j["texts"]
            texts = sorted(set(texts))
            n, rej, mm = audit_pairs(run, "C10", texts, dpkg_cmp, 6000, rnd)
        elif pid == "C12":
            U = vlib.universe(run, ["maven"])
            texts = sorted({t for t, _ in U["maven"]})
            n, rej, mm = audit_pairs(run, "C12", texts, maven_driver(), 20000, rnd)
            mm = [m for m in mm if m["why"] != "audit-scope"]   # the universe deliberately exceeds the scope
        elif pid == "C14":
            n, rej, mm = audit_fixture(run, "C14", os.path.join(vlib.REPO, "pkg/ecosystem/alpine/testdata/compare.txt"))
            mm = [m for m in mm if m["why"] != "audit-scope"]
        elif pid == "C09":
            import check_c09
            U = vlib.universe(run, ["pypi"])
            texts = {t for t, _ in U["pypi"]}
            for j in check_c09.seeded(U, rnd, False)[:10]: texts |= set(j["texts"])
            texts = sorted(texts)
            n, rej, mm = audit_pairs(run, "C09", texts, ["python3-vt", os.path.join(vlib.VERIF, "audit", "pep440_cmp.py")], 30000, rnd)
        elif pid == "C08":
            import check_c08
            U = vlib.universe(run, ["npm"])
            texts = {t for t, _ in U["npm"]}
            for j in check_c08.seeded(U, rnd, False):
                if j["eco"] in ("npm", "golang"): texts |= set(j["texts"])
            texts = sorted(texts)
            run.audit_eco = "npm"
            n, rej, mm = audit_pairs(run, "C08", texts, ["node", os.path.join(vlib.VERIF, "audit", "semver_cmp.js")], 30000, rnd)
            mm = [m for m in mm if m["why"] != "audit-scope"]
        else:
            print("no audit for", pid); return 2
        scope = [m for m in mm if m["why"] == "audit-scope"]
        bad = [m for m in mm if m["why"] == "audit"]
        print("audit %s: %d pairs agreed-or-judged, %d rejected by the reference, %d disagreements, %d texts valid for the reference but out of spec scope"
              % (pid, n, rej, len(bad), len(scope)))
        for m in (bad + scope)[:20]: print("  ", m)
        return 2 if bad else 0
    finally:
        run.cleanup()
