"""C01 — Compare is a total preorder in every ecosystem.
B1: TLC explores the grammar automata (Universe.tla) -> members; the harness
computes the real N x N Compare matrix; TLC judges RankExplains (Order.tla)."""
import random, json, os
import vlib

def check(run):
    quick = run.tier == "quick"
    # design level: the judge's criterion is the property. RankExplains <=> TotalPreorder is model-checked by TLC on
    # every 3x3 sign matrix (a machine that fills the matrix cell by cell) and, in the thorough tier, established
    # by Apalache for every 4x4 matrix symbolically (3^16 matrices are beyond enumeration)
    vlib.tlc(run, "MC_Order", "CONSTANT N = 3\nSPECIFICATION Spec\nINVARIANT RankLemma\nCHECK_DEADLOCK FALSE\n", workers=4, timeout=900, coverage=True)
    run.extra["rank_lemma"] = {"tlc_all_matrices_n": 3}
    if not quick:
        run.extra["rank_lemma"]["apalache_symbolic_n"] = 4
        run.extra["rank_lemma"]["apalache_seconds"] = vlib.apalache(run, "OrderApa", "CInit4", "RankLemma")
    exe = vlib.build_harness(run)
    only = os.environ.get('VERIF_ECOS')
    U = vlib.universe(run, only.split(',') if only else None)
    rnd = random.Random(run.seed)
    cap = 700 if quick else 4000
    jobs = []
    for eco in sorted(U):
        mem = vlib.pick(U[eco], cap, rnd)
        jobs.append({"k": "matrix", "eco": eco, "tag": "U", "texts": [t for t, _ in mem], "part": [p for _, p in mem]})
    # B2: seeded universes beyond the TLC alphabet
    jobs += seeded_universes(U, rnd, 6 if quick else 40)
    # B2: spellings of zero (trailing .0 / .00 / .000 parts, 0 written 00) and type-width boundary numbers around the
    # same template: classes of equal-comparing members of different arity, and neighbours at 2^16, 2^31, 2^63
    jobs += zero_and_boundary_families(U, rnd, 4 if quick else 30)
    # B1, small scope: every token sequence of length <= 2 (quick) / 3 (thorough) after a stem (Tokens.tla), as far as the
    # real parser accepts it: shapes no grammar author thought of
    tok, tokcounts = vlib.token_universe(run, exe, sorted(U), 2 if quick else 3, cap=700 if quick else 2500, rnd=rnd)
    run.extra["token_universe_candidates_accepted"] = tokcounts
    for eco in sorted(tok):
        if tok[eco]:
            jobs.append({"k": "matrix", "eco": eco, "tag": "tokens", "texts": tok[eco], "part": [vlib.part_of(eco, t) for t in tok[eco]]})
    # B2: pre-release identifiers around the limits of machine integers next to digit-led alphanumerics (a cycle needs
    # two over-long numbers whose numeric and ASCII orders differ, and an alphanumeric between them in ASCII order)
    IDS = ["0", "5", "10", "9223372036854775807", "9223372036854775808", "18446744073709551616", "90000000000000000000",
           "100000000000000000000", "5a", "1a", "9a", "a", "A", "-5", "a5", "5-", "1000000000000000000000a"]
    for eco in sorted(U):
        if eco in ("semver", "npm", "cargo", "hex", "nuget", "golang", "conan", "composer", "mattermost", "apache", "github"):
            stem = "v1.0.0" if eco == "golang" else "1.0.0"
            texts = [stem] + [stem + "-" + i for i in IDS] + [stem + "-rc." + i for i in IDS] + [stem + "-" + i + ".1" for i in IDS[:8]]
            jobs.append({"k": "matrix", "eco": eco, "tag": "ids", "texts": texts, "part": [0] * len(texts)})
    # B2: non-ASCII members - letters with irregular case mappings next to their ASCII relatives (vlib.UNI_GROUPS), as far as
    # the real parser accepts them. maven and alpm are left to C07's families: their regular / irregular classification
    # (KnownFindings.tla) reads the exact text.
    urnd = random.Random(run.seed * 7919 + 1)     # own stream: the draws of the other families are unchanged
    accU = vlib.accept_filter(run, exe, {e: [t for t, _ in urnd.sample(U[e], min(len(U[e]), 400))] for e in U if e not in ("maven", "alpm")}, name="uniacc")
    uni = vlib.unicode_families(run, exe, accU, urnd, per_eco=4 if quick else 16, size=6)
    run.extra["non_ascii_families"] = {e: len(uni[e]) for e in uni if uni[e]}
    for eco in sorted(uni):
        texts = list(dict.fromkeys(x for fam in uni[eco] for x in fam))
        if texts:
            jobs.append({"k": "matrix", "eco": eco, "tag": "unicode", "texts": texts, "part": [0] * len(texts)})
    # B2: strings sampled from the regular expressions of the parsers themselves (shapes the grammar automata may lack)
    import regexgen
    for eco in sorted(U):
        texts = regexgen.sample(vlib.REPO, eco, rnd, 260 if quick else 1200)
        for i in range(0, len(texts), 400):
            blk = texts[i:i + 400]
            pmap = dict(U[eco])
            jobs.append({"k": "matrix", "eco": eco, "tag": "regex", "texts": blk, "part": [vlib.part_of(eco, t) for t in blk]})
    total_judged = 0
    # shard: one trace per group of ecosystems to bound TLC memory/time
    nU = len(U)
    shards = [s for s in ([jobs[i::4] for i in range(4)] if quick else [[j] for j in jobs[:nU]] + [jobs[nU:]]) if s]
    import concurrent.futures as cf
    def one(k_sh):
        k, sh = k_sh
        jp, ep = run.path("jobs%d.ndjson" % k), run.path("ev%d.ndjson" % k)
        vlib.write_ndjson(jp, sh)
        vlib.run_harness(run, exe, jp, ep)
        mm, info = vlib.judge(run, ep, "C01", name="judge%d" % k, heap="6g")
        evs = [(e["eco"], e["n"], e["rejected"], e["tag"], e["texts"][:3]) for e in vlib.read_ndjson(ep)]
        return mm, info, evs
    with cf.ThreadPoolExecutor(max_workers=4 if quick else 5) as ex:
        results = list(ex.map(one, list(enumerate(shards))))
    per = {}; doc = {}
    for mm, info, evs in results:
        for eco, n, rej, tag, smp in evs:
            d = per.setdefault(eco, {"members": 0, "rejected": 0, "pairs": 0})
            d["members"] += n; d["rejected"] += rej; d["pairs"] += n * n
            total_judged += n * n
            if tag == "U" and len(run.samples) < 8:
                run.samples.append({"eco": eco, "n": n, "first_members": smp})
        for m in mm:
            if m.get("known"):
                run.known[m["known"]] = run.known.get(m["known"], 0) + 1
            else:
                run.violations.append(m)
        for i in info:
            for d, c in i.get("knownCounts", []):
                run.known[d] = max(run.known.get(d, 0), c)
            if "docOrder" in i:   # drift against spec/DocOrder.tla: reported, never a verdict (no property pins these orders)
                dd = doc.setdefault(i["docOrder"], {"members": 0, "out_of_scope": 0, "pairs_differing": 0, "examples": []})
                dd["members"] += i["docMembers"]; dd["out_of_scope"] += i["docOutOfScope"]; dd["pairs_differing"] += i["docDrift"]
                dd["examples"] = (dd["examples"] + i["docExamples"])[:5]
    run.extra["per_ecosystem"] = per
    run.extra["documented_order_drift"] = doc
    run.extra["universe_sizes"] = {e: len(U[e]) for e in U}
    run.assumptions = ["the bounded universes of spec/Universe.tla (grammar automata) plus seeded universes; "
                       "strings the real parser rejects are counted, not judged",
                       "alpm members are judged within their pkgrel partition only (the property's sole exclusion)"]
    return vlib.finish(run, rule="all ordered pairs of every universe; a pair is judged by RankExplains on the full observed matrix",
                       exhaustive=not quick, judged=total_judged, min_judged=1000)

BIG = ["4294967296", "18446744073709551616", "99999999999999999999", "000000000000000000000007", "340282366920938463463374607431768211456",
       "00018446744073709551616", "018446744073709551617", "0018446744073709551616", "98446744073709551616", "0098446744073709551616"]
def seeded_universes(U, rnd, k):
    """B2: mutate accepted-looking members: replace digit runs by seeded magnitudes /
    leading-zero forms / very long runs, change letter case; 12-40 members per universe."""
    import re
    jobs = []
    for eco in sorted(U):
        for r in range(k):
            base = rnd.sample(U[eco], min(len(U[eco]), rnd.randint(6, 14)))
            texts, parts = [], []
            for t, p in base:
                texts.append(t); parts.append(p)
                for _ in range(2):
                    def rep(m):
                        c = rnd.random()
                        if c < 0.35: return m.group(0)
                        if c < 0.5: return str(rnd.randint(0, 2**31))
                        if c < 0.6: return rnd.choice(BIG)
                        if c < 0.75: return "0" * rnd.randint(1, 3) + m.group(0)
                        if c < 0.85: return str(rnd.randint(0, 12))
                        return m.group(0) + str(rnd.randint(0, 9))
                    t2 = re.sub(r"\d+", rep, t)
                    if rnd.random() < 0.2: t2 = t2.swapcase()
                    texts.append(t2); parts.append(vlib.part_of(eco, t2) if eco == "alpm" else p)
            jobs.append({"k": "matrix", "eco": eco, "tag": "seeded", "texts": texts, "part": parts})
    return jobs

def zero_and_boundary_families(U, rnd, k):
    import re, refcheck
    head = re.compile(r"^[vV=]*\d+(?:\.\d+)*")
    jobs = []
    for eco in sorted(U):
        pool = [(t, p) for t, p in U[eco] if head.match(t) and len(t) < 40]
        if not pool: continue
        for r in range(k):
            texts, parts = [], []
            for t, p in rnd.sample(pool, min(5, len(pool))):
                m = head.match(t)
                h, rest = t[:m.end()], t[m.end():]
                fam = [h + z + rest for z in ("", ".0", ".00", ".0.0", ".000", ".0.00", ".00.0")]
                fam += [re.sub(r"(?<![0-9])0(?![0-9])", z, t, count=1) for z in ("00", "000")]
                runs = list(re.finditer(r"[0-9]+", t))
                mm = rnd.choice(runs)
                fam += [t[:mm.start()] + str(b) + t[mm.end():] for b in rnd.sample(refcheck.BOUNDARY, 8)]
                for x in fam:
                    if x not in texts:
                        texts.append(x); parts.append((vlib.part_of(eco, x) if eco == "alpm" else p))
            jobs.append({"k": "matrix", "eco": eco, "tag": "zeros", "texts": texts, "part": parts})
    return jobs

def replay(d):
    print(json.dumps(d, indent=1)); return 0
