"""C03 — numbers order numerically; pre-release < release < post-release.
B1: TLC explores the vector generator of Markers.tla (one-position differences over the
12x12 boundary values for every accepted arity and position; marker spellings with their
documented direction); the harness runs the real NewVersion/Compare; TLC judges.
B2: seeded random tuples up to 2^31."""
import random, json, concurrent.futures as cf
import vlib

ECOS = ["alpine", "alpm", "apache", "cargo", "composer", "conan", "cran", "debian", "gem", "gentoo", "github",
        "golang", "hex", "mattermost", "maven", "npm", "nuget", "pypi", "rpm", "semver"]
ARITIES = {"semver": [3], "cargo": [3], "npm": [3], "golang": [3], "apache": [3], "github": [3], "mattermost": [3],
           "hex": [2, 3], "nuget": [1, 2, 3, 4], "composer": [1, 2, 3, 4], "cran": [2, 3, 4, 5]}

def seeded(rnd, n):
    jobs = []
    for e in ECOS:
        for _ in range(n):
            k = rnd.choice(ARITIES.get(e, [1, 2, 3, 4, 5]))
            def val():
                c = rnd.random()
                return rnd.randint(0, 12) if c < 0.4 else rnd.randint(0, 2**31 - 1) if c < 0.8 else rnd.choice([99, 100, 999, 1000, 65535, 2**31 - 1])
            t1 = [val() for _ in range(k)]
            t2 = list(t1)
            for p in range(k):
                if rnd.random() < 0.4: t2[p] = val()
            if e == "github" and any(len(t) == 3 and 1000 <= t[0] <= 9999 and t[1] <= 99 and t[2] <= 99 for t in (t1, t2)):
                continue
            want = (t1 > t2) - (t1 < t2)
            pre = "v" if e == "golang" else ""
            jobs.append({"k": "cmp", "eco": e, "kind": "tuple", "a": pre + ".".join(map(str, t1)), "b": pre + ".".join(map(str, t2)), "want": want})
        # two positions exchanged between a narrow and a wide number (2.10 vs 10.2): same length, same digits, so
        # every text-based shortcut gets it wrong while the tuples differ at the first position
        for _ in range(max(8, n // 6)):
            ks = [k for k in ARITIES.get(e, [2, 3, 4, 5]) if k >= 2]
            if not ks: continue
            k = rnd.choice(ks)
            i, j = sorted(rnd.sample(range(k), 2))
            lo, hi = rnd.choice([(2, 10), (9, 10), (9, 100), (99, 1000), (999, 1000), (9, 65535), (99999, 100000)])
            t1 = [rnd.choice([0, 1, 2, 9, 10]) for _ in range(k)]; t2 = list(t1)
            t1[i], t1[j], t2[i], t2[j] = lo, hi, hi, lo
            if e == "github" and any(len(t) == 3 and 1000 <= t[0] <= 9999 and t[1] <= 99 and t[2] <= 99 for t in (t1, t2)):
                continue
            pre = "v" if e == "golang" else ""
            jobs.append({"k": "cmp", "eco": e, "kind": "tuple", "a": pre + ".".join(map(str, t1)), "b": pre + ".".join(map(str, t2)), "want": -1})
    return jobs

def check(run):
    quick = run.tier == "quick"
    exe = vlib.build_harness(run)
    cfg = vlib.cfg_consts(E=set(ECOS), Ctxs={1} if quick else {1, 2, 3}) + "INIT Init\nNEXT Next\nINVARIANT Emit\nCHECK_DEADLOCK FALSE\n"
    lines, st, dt = vlib.tlc(run, "MC_Markers", cfg, workers=8, timeout=900)
    vecs = vlib.tagged(lines, "VEC")
    rnd = random.Random(run.seed)
    jobs = [dict(v, k="cmp") for v in vecs] + seeded(rnd, 300 if quick else 40000)
    nsh = 8
    shards = [jobs[i::nsh] for i in range(nsh)]
    def one(k_sh):
        k, sh = k_sh
        jp, ep = run.path("jobs%d.ndjson" % k), run.path("ev%d.ndjson" % k)
        vlib.write_ndjson(jp, sh); vlib.run_harness(run, exe, jp, ep)
        mm, info = vlib.judge(run, ep, "C03", name="judge%d" % k, heap="4g")
        evs = vlib.read_ndjson(ep)
        judged = sum(1 for e in evs if e["acca"] and e["accb"])
        skipped = {}
        for e in evs:
            if e["kind"] != "tuple" and not (e["acca"] and e["accb"]):
                key = e["eco"] + ":" + e["a"]
                skipped[key] = 1
        smp = [e for e in evs if e["kind"] != "tuple" and e["acca"] and e["accb"]][:1] + evs[:1]
        return mm, judged, skipped, smp
    with cf.ThreadPoolExecutor(max_workers=8) as ex:
        results = list(ex.map(one, list(enumerate(shards))))
    judged = 0; skipped = {}
    for mm, n, sk, smp in results:
        judged += n; skipped.update(sk)
        for e in smp:
            if len(run.samples) < 8: run.samples.append({k: e[k] for k in ("eco", "kind", "a", "b", "want", "got")})
        for m in mm:
            if m.get("known"):
                run.known[m["known"]] = run.known.get(m["known"], 0) + 1
            else:
                run.violations.append(m)
    run.extra["marker_spellings_rejected_by_parser_skipped"] = sorted(skipped)[:60]
    run.extra["vectors_from_tlc"] = len(vecs)
    run.assumptions = ["marker directions are the ecosystems' documented ones (table in Markers.tla); a marker spelling the parser rejects is skipped, a plain numeric tuple it rejects is a violation",
                       "github tuples shaped like dates (4-digit first component, others <= 99) are not generated"]
    return vlib.finish(run, rule="per ecosystem: every accepted arity x position x 12x12 boundary values (x 3 contexts in thorough) + every marker spelling x 3 bases per arity + seeded random tuples up to 2^31",
                       exhaustive=True, judged=judged, min_judged=1000)

def replay(d):
    print(json.dumps(d, indent=1)); return 0
