"""dev helper: run a check's judge and summarise mismatches"""
import sys, collections, json, subprocess, re
out = subprocess.run(["bin/vcheck"] + sys.argv[1:], stdout=subprocess.PIPE, text=True, env=dict(__import__("os").environ, VERIF_DEBUG="1")).stdout
print(out[-600:])
