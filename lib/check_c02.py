"""C02 — comparator ranges contain exactly what Compare says.
B1: TLC enumerates every range structure of the catalogue (RangeGen.tla) and renders
its text from this run's bound texts; the harness parses it with the real
NewVersionRange and logs Contains plus the signs of Compare(probe, bound); TLC judges
contains = Den(signs) (Range.tla)."""
import random, json, os, concurrent.futures as cf
import vlib

NB = 6
ECOS = ["alpine", "alpm", "apache", "cargo", "composer", "conan", "cran", "debian", "gem", "gentoo", "github",
        "golang", "hex", "mattermost", "npm", "nuget", "pypi", "rpm", "semver"]

def bound_ok(t):
    return t and t[0] not in "<>=!~^*" and not any(c in t for c in " ,|")

def gen_round(run, exe, acc, rnd, rno, nprobes):
    bounds, probes = {}, {}
    ZEROS = vlib.accept_filter(run, exe, {e: ["0.0.0", "0.0", "0", "v0.0.0", "0.0.0.0"] for e in ECOS}, name="zeros%d" % rno) if nprobes else {}
    LONGB = {}
    if nprobes:
        import re
        longc = {}
        for e in ECOS:
            c = []
            for t in rnd.sample([t for t in acc[e] if bound_ok(t)], 6):
                runs = list(re.finditer(r"[A-Za-z]+", t))
                if runs and len(t) < 250:
                    m = runs[-1]
                    c.append(t[:m.end()] + t[m.end() - 1] * (250 - len(t)) + t[m.end():])
            longc[e] = c
        LONGB = vlib.accept_filter(run, exe, longc, name="longb%d" % rno)
    for e in ECOS:
        cand = [t for t in acc[e] if bound_ok(t)]
        if len(cand) < NB:
            raise vlib.Infra("too few admissible bounds for " + e)
        bounds[e] = rnd.sample(cand, NB)
        # one bound is the ecosystem's zero version (0.0.0 / 0.0 / 0): the lowest release, where "everything matches"
        # rewrites of >= bounds and pre-releases of zero meet
        zeros = [z for z in ZEROS.get(e, []) if z not in bounds[e]]
        if zeros and nprobes:
            bounds[e][0] = zeros[rno % len(zeros)]
        if nprobes:
            # one bound spelled with a letter prefix the version parser accepts (v1.2.3, release-1.0), and one long bound
            # (about 250 bytes: a range text built from it passes 256 bytes)
            pre = [t for t in cand if t[0].isalpha() and any(c.isdigit() for c in t) and t not in bounds[e]]
            if pre:
                bounds[e][1] = rnd.choice(pre)
            if LONGB.get(e):
                bounds[e][2] = LONGB[e][rno % len(LONGB[e])]
        probes[e] = list(dict.fromkeys(bounds[e] + rnd.sample(acc[e], min(len(acc[e]), nprobes))))
    # neighbours of the bounds at type-width boundaries (65536, 2^31, 2^63, ...): the oracle is still the real Compare
    if nprobes:
        SUF = ["-1", "-0", ".0", "-r1", "+b1", "_p1", "~rc1", "-alpha", ".post1", "a", "-1.el8", ".dev1", "_rc1", "-SNAPSHOT"]
        near = vlib.accept_filter(run, exe, {e: [v for b in bounds[e] for v in vlib.boundary_variants(b, rnd, 6) + [b + x for x in (SUF if b in ZEROS.get(e, []) else rnd.sample(SUF, 5))]]
                                             for e in ECOS}, name="near%d" % rno)
        for e in ECOS:
            probes[e] = list(dict.fromkeys(probes[e] + near[e]))
    data = "---- MODULE RangeData ----\nEXTENDS TLC\n" + vlib.tla_fun_of_seqs("BoundsOf", bounds) + "====\n"
    cfg = vlib.cfg_consts(E=set(ECOS), NB=NB) + "INIT Init\nNEXT Next\nINVARIANT Emit\nCHECK_DEADLOCK FALSE\n"
    lines, st, dt = vlib.tlc(run, "MC_Range", cfg, name="gen%d" % rno, workers=8, timeout=900,
                             extra_files={"RangeData.tla": data})
    vecs = vlib.tagged(lines, "VEC")
    jobs = [{"k": "range", "eco": v["eco"], "text": v["text"], "groups": v["groups"],
             "bounds": bounds[v["eco"]], "probes": probes[v["eco"]]} for v in vecs]
    return jobs

def check(run):
    quick = run.tier == "quick"
    exe = vlib.build_harness(run)
    U = vlib.universe(run, ECOS)
    acc = vlib.accepted(run, exe, U)
    rnd = random.Random(run.seed)
    rounds = 1 if quick else 12
    jobs = []
    for r in range(rounds):
        jobs += gen_round(run, exe, acc, rnd, r, 18 if quick else 30)
    rnd.shuffle(jobs)
    nsh = 8
    shards = [jobs[i::nsh] for i in range(nsh)]
    def one(k_sh):
        k, sh = k_sh
        jp, ep = run.path("jobs%d.ndjson" % k), run.path("ev%d.ndjson" % k)
        vlib.write_ndjson(jp, sh)
        vlib.run_harness(run, exe, jp, ep)
        mm, info = vlib.judge(run, ep, "C02", name="judge%d" % k, heap="5g")
        n = 0; smp = None
        for e in vlib.read_ndjson(ep):
            n += len(e["probes"]) if e["parsed"] else 1
            if smp is None and e["parsed"] and len(e["groups"]) > 1:
                smp = {"eco": e["eco"], "text": e["text"], "groups": e["groups"], "probe": e["probes"][:1], "contains": e["contains"][:1]}
        return mm, n, smp
    with cf.ThreadPoolExecutor(max_workers=8) as ex:
        results = list(ex.map(one, list(enumerate(shards))))
    judged = 0
    for mm, n, smp in results:
        judged += n
        if smp and len(run.samples) < 6: run.samples.append(smp)
        for m in mm:
            if m.get("known"):
                run.known[m["known"]] = run.known.get(m["known"], 0) + 1
            else:
                run.violations.append(m)
    run.extra["ranges"] = len(jobs)
    run.extra["bounds_per_ecosystem"] = NB
    run.assumptions = ["bounds and probes are seeded samples of the accepted members of the TLC-generated universes; "
                       "bounds starting with a comparator character or containing a separator character are excluded (the property's scope)",
                       "the oracle for a probe is the real Compare of the same ecosystem (logged signs); order correctness itself is C01/C08-C14"]
    return vlib.finish(run, rule="every range structure of the catalogue (all single operators x 6 bounds, all ordered operator pairs x AND separators x 3 bound pairs, lower/upper/point triples in 3 orders, OR groups) per ecosystem x all probes",
                       exhaustive=True, judged=judged, min_judged=1000)

def replay(d):
    print(json.dumps(d, indent=1)); return 0
