"""C07 — sorting returns the same versions in non-decreasing order.
Design level: an abstract comparison sort driven by an oracle matrix is model-checked by TLC
(Sort.tla) for every input order - with a total-preorder oracle all invariants hold, with a
3-cycle TLC produces the counterexample (negative control). Conformance: TLC enumerates all
permutations of 1..n; multisets of real versions (with forced duplicates and Compare-equal,
textually different members) are sorted in every order by the documented library idiom and,
for a sample, by the real CLI; TLC judges multiset equality, adjacent order and the uniqueness
of the class sequence; invalid members must make the CLI fail naming the offending text."""
import random, json, itertools, concurrent.futures as cf
import vlib, check_c15, check_c20

ECOS = check_c20.ECOS

def model(run, n):
    base = "SPECIFICATION SSpec\nINVARIANT IsPermutationOfInput\nINVARIANT NonDecreasing\nINVARIANT AllPairsOrdered\nINVARIANT ClassSeqCanonical\nCHECK_DEADLOCK FALSE\n"
    cfg = "CONSTANT N = %d\nCONSTANT O <- PreorderOracle\n" % n + base + "INVARIANT EmitPerm\n"
    lines, st, dt = vlib.tlc(run, "MC_Sort", cfg, name="sort.preorder", workers=4, timeout=900, coverage=True)
    perms = [v["perm"] for v in vlib.tagged(lines, "VEC")]
    # negative control: the cyclic oracle must violate AllPairsOrdered
    cfg2 = "CONSTANT N = 4\nCONSTANT O <- CycleOracle\nSPECIFICATION SSpec\nINVARIANT AllPairsOrdered\nCHECK_DEADLOCK FALSE\n"
    try:
        vlib.tlc(run, "MC_Sort", cfg2, name="sort.cycle", workers=1, timeout=300, count=False)
        raise vlib.Infra("negative control failed: the cyclic oracle did not violate AllPairsOrdered")
    except vlib.Infra as e:
        if "AllPairsOrdered is violated" not in str(e):
            raise
    return perms

def check(run):
    quick = run.tier == "quick"
    exe = vlib.build_harness(run)
    cli = vlib.build_cli(run)
    rnd = random.Random(run.seed)
    nmax = 5 if quick else 6
    permsN = model(run, nmax)                         # all permutations of 1..nmax, from TLC
    U = vlib.universe(run, ECOS)
    acc = vlib.accepted(run, exe, U, regex_extra=200 if quick else 1500, rnd=rnd, tokens=2 if quick else 3, tokens_cap=300 if quick else 1500)
    versions, part = check_c20.choose_versions(run, exe, U, acc, rnd, 10, 10)
    jobs = []; cliruns = []
    uni = vlib.unicode_families(run, exe, acc, random.Random(run.seed * 7919 + 7), per_eco=5 if quick else 14, size=nmax)   # own stream: the draws below are unchanged
    run.extra["non_ascii_families"] = {e: len(uni[e]) for e in uni if uni[e]}
    nsets = 5 if quick else 25
    for e in ECOS:
        pool = versions[e]
        shapes = vlib.stratified(acc[e], 60 if quick else 400, rnd)       # one member per distinct text shape
        for i in range(0, len(shapes), nmax):
            items = shapes[i:i + nmax]
            pp = permsN if len(items) == nmax else [list(p) for p in itertools.permutations(range(1, len(items) + 1))]
            jobs.append({"k": "sortset", "eco": e, "items": items, "part": [vlib.part_of(e, t) for t in items], "perms": rnd.sample(pp, min(len(pp), 24))})
        for s in range(nsets):
            n = rnd.choice([1, 2, 3, 4, nmax, nmax]) if s else nmax
            items = [rnd.choice(pool) for _ in range(n)]
            if n >= 2 and rnd.random() < 0.7: items[1] = items[0]          # forced duplicate text
            if n == nmax:
                perms = permsN
            else:
                perms = [list(p) for p in itertools.permutations(range(1, n + 1))]
            jobs.append({"k": "sortset", "eco": e, "items": items, "part": [vlib.part_of(e, t) for t in items], "perms": perms})
            for p in rnd.sample(perms, max(1, len(perms) // 16)):
                cliruns.append({"tag": "sort", "argv": [check_c15.codes(x) for x in [e, "sort"] + [items[i - 1] for i in p]]})
            # the same list with blank-padded spellings of some members (valid inputs; the CLI must print exactly what
            # the library's String() gives for the arguments as passed)
            if n >= 2:
                padded = [rnd.choice([" %s", "%s ", "\t%s", "%s\n", " %s ", "%s\r\n"]) % t if rnd.random() < 0.5 else t for t in items]
                cliruns.append({"tag": "sort", "argv": [check_c15.codes(x) for x in [e, "sort"] + padded]})
        # non-ASCII members (letters with irregular case mappings) next to their ASCII relatives: all permutations
        for fam in uni.get(e, []):
            items = fam[:nmax]
            pp = permsN if len(items) == nmax else [list(p) for p in itertools.permutations(range(1, len(items) + 1))]
            jobs.append({"k": "sortset", "eco": e, "items": items, "part": [vlib.part_of(e, t) for t in items], "perms": pp})
            cliruns.append({"tag": "sort", "argv": [check_c15.codes(x) for x in [e, "sort"] + items[::-1]]})
        # multisets the pre-sample suggests are ordered inconsistently (generator heuristic; TLC judges the real sort)
        for trip in getattr(run, "suspects", {}).get(e, [])[:8]:
            items = trip + [rnd.choice(pool) for _ in range(2)]
            jobs.append({"k": "sortset", "eco": e, "items": items, "part": [vlib.part_of(e, t) for t in items], "perms": [list(p) for p in itertools.permutations(range(1, 6))]})
        if not quick:   # longer lists, sampled orders
            for _ in range(6):
                n = rnd.choice([7, 12, 24, 64])
                items = [rnd.choice(pool) for _ in range(n)]
                perms = [rnd.sample(range(1, n + 1), n) for _ in range(40)]
                jobs.append({"k": "sortset", "eco": e, "items": items, "part": [vlib.part_of(e, t) for t in items], "perms": perms})
        # invalid members: the CLI must fail, name the offending text, print no result
        rej = [t for t, _ in U[e] if t not in set(acc[e])] or ["not a version"]
        for _ in range(4 if quick else 20):
            n = rnd.randint(1, 5)
            items = [rnd.choice(pool) for _ in range(n)]
            items[rnd.randrange(n)] = rnd.choice(rej + ["", "zzz!", "1.0 beta"])
            cliruns.append({"tag": "sort-invalid", "argv": [check_c15.codes(x) for x in [e, "sort"] + items]})
    nsh = 8
    shards = [jobs[i::nsh] for i in range(nsh)]
    def one(k_sh):
        k, sh = k_sh
        jp, ep = run.path("jobs%d.ndjson" % k), run.path("ev%d.ndjson" % k)
        cl = cliruns[k::nsh]
        vlib.write_ndjson(jp, sh + [{"k": "cli", "runs": cl[i:i + 200]} for i in range(0, len(cl), 200)])
        vlib.run_harness(run, exe, jp, ep, env={"VERIF_CLI": cli})
        mm, info = vlib.judge(run, ep, "C07", name="judge%d" % k, heap="5g")
        evs = vlib.read_ndjson(ep)
        n = sum(len(e["outs"]) for e in evs if e["k"] == "sortset") + sum(1 for e in evs if e["k"] == "cli")
        smp = [e for e in evs if e["k"] == "sortset" and len(e["items"]) >= 4][:1]
        return mm, n, smp
    with cf.ThreadPoolExecutor(max_workers=4) as ex:
        results = list(ex.map(one, list(enumerate(shards))))
    judged = 0
    for mm, n, smp in results:
        judged += n
        for e in smp:
            if len(run.samples) < 5: run.samples.append({"eco": e["eco"], "items": e["items"], "one_input_order": e["perms"][1], "its_output": e["outs"][1]})
        for m in mm:
            if m.get("known"):
                run.known[m["known"]] = run.known.get(m["known"], 0) + 1
            else:
                run.violations.append(m)
    run.extra["multisets"] = len(jobs); run.extra["cli_executions"] = len(cliruns); run.extra["all_permutations_up_to"] = nmax
    run.assumptions = ["multisets are drawn (seeded) from version lists rich in Compare-equal spellings, with forced duplicate texts; the Compare matrix logged with each multiset is the real one",
                       "the CLI is executed for 1 in 16 orderings and for every invalid-member list"]
    return vlib.finish(run, rule="per ecosystem: multisets of 1..%d versions x all their permutations (from TLC) through slices.SortFunc(vs, V.Compare); 1/16 of the orderings and all invalid-member lists through the real binary" % nmax,
                       exhaustive=False, judged=judged, min_judged=1000)

def replay(d):
    print(json.dumps(d, indent=1)); return 0
