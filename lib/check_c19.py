"""C19 — operations are pure and safe for concurrent use.
Design level: TLC explores every interleaving of 3 goroutines x 2 calls of the begin/mid/end model
(Conc.tla): no step changes the shared heap and every End of an operation returns the same result;
the lazily-caching variant is the negative control (TLC must find the violating interleaving).
Conformance: one table of operations over shared ecosystem / version / range values is executed in
separate processes in two different sequential orders and concurrently by 16-32 goroutines under the
Go race detector; every (operation key, result) is logged and TLC validates the trace with a memo
history variable: the first result seen for a key must be the result everywhere - across goroutines,
orders and processes - and the deep snapshot of the shared values must not change."""
import random, json, os, glob, subprocess
import vlib, check_c02, check_c05, versgen

ECOS = ["alpine", "alpm", "apache", "cargo", "composer", "conan", "cran", "debian", "gem", "gentoo", "github",
        "golang", "hex", "mattermost", "maven", "npm", "nuget", "pypi", "rpm", "semver"]

def model(run):
    base = "CONSTANT Procs = {1, 2, 3}\nCONSTANT MaxCalls = 2\n"
    vlib.tlc(run, "MC_Conc", base + "CONSTANT Lazy = FALSE\nSPECIFICATION CSpec\nINVARIANT ResultsIndependent\nPROPERTY HeapNeverChanges\nCHECK_DEADLOCK FALSE\n",
             name="conc.pure", workers=8, timeout=900, coverage=True, unfired_ok=("Mid2",))
    try:
        vlib.tlc(run, "MC_Conc", base + "CONSTANT Lazy = TRUE\nSPECIFICATION CSpec\nINVARIANT ResultsIndependent\nCHECK_DEADLOCK FALSE\n",
                 name="conc.lazy", workers=1, timeout=300, count=False)
        raise vlib.Infra("negative control failed: the lazily caching model did not violate ResultsIndependent")
    except vlib.Infra as e:
        if "ResultsIndependent is violated" not in str(e): raise

def check(run):
    quick = run.tier == "quick"
    model(run)
    exe = vlib.build_harness(run)
    exe_race = vlib.build_harness(run, race=True)
    rnd = random.Random(run.seed)
    U = vlib.universe(run, ECOS)
    acc = vlib.accepted(run, exe, U, regex_extra=100, rnd=rnd)
    rtexts = {e: [] for e in ECOS}
    for j in check_c02.gen_round(run, exe, {e: acc[e] for e in check_c02.ECOS}, rnd, 0, 0): rtexts[j["eco"]].append(j["text"])
    perconstruct = {e: {} for e in ECOS}
    for v in check_c05.vectors(run):
        rtexts[v["eco"]].append(v["text"])
        perconstruct[v["eco"]].setdefault(v["construct"], []).append(v["text"])
    # always present: one range per shorthand construct (every arity) and the plain numeric versions in 1-3 part
    # spellings; the remaining places are filled by shape-stratified sampling
    must_r = {e: [x for c, ts in sorted(perconstruct[e].items()) for x in (sorted(ts)[0], sorted(ts)[-1], rnd.choice(sorted(ts)))] for e in ECOS}
    fam = vlib.accept_filter(run, exe, {e: ["1", "1.0", "1.0.0", "2", "1.5", "v1.0.0", "0.0.1", "2.0.0.rc1", "2.0.0-rc1", "1.0.0-beta", "3.0.rc2", "1.0a1", "1.0_rc1", "1.0~rc1", "1!1.0", "1:1.0-1", "1.0.0-alpha.1"] for e in ECOS}, name="fam")
    ch = versgen.chains(run)
    # ranges with 3..8 alternatives / intervals (slices that grow past their capacity, hot-alternative reordering, ...)
    def many(k, fmt, sep):
        return sep.join(fmt % (2 * i, 2 * i + 1) for i in range(1, k + 1))
    for k in range(3, 9):
        must_r["maven"].append("(,1.0]," + many(k - 1, "[%d.0,%d.0]", ","))
        for e in ("npm", "composer", "conan", "semver", "cargo", "hex", "gem", "nuget", "pypi"):
            must_r[e].append(many(k, ">=%d.0.0 <%d.0.0", " || "))
            must_r[e].append(many(k, ">=%d.0.0, <%d.0.0", " || "))
    nv, nr = (8, 40) if quick else (14, 120)
    # VERS: the same constraint text under every scheme that accepts its versions (history across schemes)
    bodies = [">=1.0.0|<2.0.0", ">=1.0.0-beta1|<1.0.0-beta3|>=1.0.0-RC1|<1.0.0", "=1.0|!=1.1|>2.0", ">=1.0~rc1|<2.0.7", "<1.0.0-alpha|>=1.0.0|<2.0.9",
              ">=1.0.0-rc.1|<1.0.0-rc.10|>=1.0.0-rc.2",
              # rejected half-way (valid constraints first): what a failed call leaves behind must not reach the next call
              ">=1.0.0|<2.x!y z", "=1.0|!=1.1|>oops!",
              # an upper and a lower bound on the same version (their relative order decides how bounds pair into intervals)
              ">=1.0.0|<2.0.0|>=2.0.0|<3.0.0", "<=2.0|>2.0", ">=1.4.0|<=1.4.0"]
    versranges = ["vers:%s/%s" % (s, b) for b in bodies for s in versgen.SCHEMES]
    versprobes = ["1.0.0", "1.0.0-beta5", "1.5", "2.0.7", "1.0.0-rc.3", "v1.0.0", "1.0~rc2"]
    import re
    longd = {e: [t for t in acc[e] if re.search(r"[0-9]{19}", t)] for e in ECOS}
    rejs = {e: [t for t, _ in U[e] if t not in set(acc[e])] for e in ECOS}
    base_jobs = []
    for e in ECOS:
        base_jobs.append({"k": "conc", "eco": e, "versions": list(dict.fromkeys(fam[e][:9] + rnd.sample(longd[e], min(3, len(longd[e]))) + vlib.stratified(acc[e], nv, rnd))),
                          "rejects": (sorted(rejs[e], key=lambda t: -len(t))[:2] + rnd.sample(rejs[e], min(3, len(rejs[e])))) + ["1." + "9" * 20, "9" * 20, ""],
                          "ranges": list(dict.fromkeys(must_r[e] + vlib.stratified(rtexts[e] or ["1.0"], nr, rnd))),
                          "versranges": versranges if e in ("npm", "maven") else [], "versprobes": versprobes, "g": 16 if quick else 32,
                          "rounds": 2 if quick else 6})
    traces = []
    def run_phase(name, phase, seed, binary, env=None):
        jp, ep = run.path("%s.jobs" % name), run.path("%s.ev" % name)
        vlib.write_ndjson(jp, [dict(j, phase=phase, seed=seed) for j in base_jobs])
        vlib.run_harness(run, binary, jp, ep, timeout=3000, env=env)
        traces.append(ep)
    run_phase("seqA", "seq", 11, exe)
    run_phase("seqB", "seq", 97, exe)
    racelog = run.path("race")
    races = []
    try:
        run_phase("conc", "conc", run.seed, exe_race, env={"GORACE": "halt_on_error=0 exitcode=0 log_path=%s" % racelog})
    except vlib.Infra as e:
        # the Go runtime kills the process when it detects unsynchronised map access: that is an observation
        # of go-univers under concurrent use (a data race), not a failure of the harness
        msg = str(e)
        hit = [l for l in msg.splitlines() if "concurrent map" in l]
        if not hit:
            raise
        where = [l.strip() for l in msg.splitlines() if "go-univers/pkg" in l or "/repo/" in l][:4]
        races.append({"k": "race", "report": ("runtime fatal error: " + hit[0].strip() + " / " + " / ".join(where))[:600]})
    for f in glob.glob(racelog + ".*"):
        txt = open(f, errors="replace").read()
        for blk in txt.split("=================="):
            if "DATA RACE" in blk:
                lines = [l.strip() for l in blk.strip().splitlines() if l.strip()]
                races.append({"k": "race", "report": " / ".join(lines[:8])[:600]})
    all_ev = run.path("all.ev")
    with open(all_ev, "w") as out:
        for t in traces: out.write(open(t).read())
        for r in races[:20]: out.write(json.dumps(r) + "\n")
    mm, info = vlib.judge(run, all_ev, "C19", name="judge", heap="8g", timeout=2400)
    calls = 0; keys = set()
    for t in traces:
        for e in vlib.read_ndjson(t):
            calls += len(e["results"]); keys.update(r["key"] for r in e["results"])
            if len(run.samples) < 4 and e["phase"] == "conc":
                run.samples.append({"eco": e["eco"], "phase": e["phase"], "goroutines": e["g"], "first_calls": e["results"][:3]})
    for m in mm:
        if m.get("known"):
            run.known[m["known"]] = run.known.get(m["known"], 0) + 1
        else:
            run.violations.append(m)
    run.extra.update({"logged_calls": calls, "distinct_operation_keys": len(keys), "race_reports": len(races), "processes": 3})
    run.assumptions = ["data races are sensed by the Go race detector on the executed paths (a sensor outside the model: each report is an event the trace specification cannot accept); schedules inside a call are not controlled",
                       "history independence is observed across two sequential orders and one concurrent run in three separate processes"]
    return vlib.finish(run, rule="per ecosystem: all Compare pairs, Contains, String, NewVersion, NewVersionRange over shared shape-stratified values (+ vers.Contains for the same constraint text under all 11 schemes): two sequential orders in two processes + 16-32 goroutines x rounds under -race",
                       exhaustive=False, judged=calls, min_judged=1000)

def replay(d):
    print(json.dumps(d, indent=1)); return 0
