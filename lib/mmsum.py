"""dev helper: summarise MISMATCH lines of kept run dirs: python3 lib/mmsum.py C05 [keyfields...]"""
import glob, collections, json, sys
pid = sys.argv[1]; keys = sys.argv[2:] or ["eco", "why"]
c = collections.Counter(); ex = {}
for f in glob.glob('/verif/out/run.%s.*/tlc.judge*/tlc.out' % pid):
    for l in open(f):
        if l.startswith('<<"MISMATCH"'):
            m = json.loads(json.loads(l[len('<<"MISMATCH", '):-3]))
            k = tuple(m.get(x) for x in keys); c[k] += 1
            ex.setdefault(k, []).append({x: m[x] for x in m if x not in keys and x not in ("prop", "known")})
for k in sorted(c, key=str): print(k, c[k], json.dumps(ex[k][:4])[:700])
