"""C05 — shorthand range operators denote their documented intervals.
B1: TLC explores the shorthand table (Shorthand.tla: ecosystem x construct x arity x base),
renders each range text and derives the boundary probes; the harness parses the text with
the real NewVersionRange and logs Contains per probe; TLC judges contains = Member(probe,
documented intervals) (ShorthandSem.tla)."""
import json, concurrent.futures as cf
import vlib

ECOS = ["npm", "cargo", "composer", "conan", "gem", "hex", "pypi", "nuget", "maven"]

def vectors(run, wide=False):
    cfg = vlib.cfg_consts(E=set(ECOS), XS={0, 1, 2, 9, 10, 99, 100} if wide else {0, 1, 2, 9}, ZS={0, 3, 9, 10, 99} if wide else {0, 3, 9}) + "INIT Init\nNEXT Next\nINVARIANT Emit\nINVARIANT RowSane\nCHECK_DEADLOCK FALSE\n"
    lines, st, dt = vlib.tlc(run, "MC_Shorthand", cfg, workers=8, timeout=900)
    return vlib.tagged(lines, "VEC")

def check(run):
    exe = vlib.build_harness(run)
    vecs = vectors(run, wide=run.tier != "quick")
    jobs = sorted([dict(v, k="short") for v in vecs], key=lambda j: (j["eco"], j["construct"], j["text"]))   # TLC's output order varies
    nsh = 8
    # eight interleaved shards (eight processes) and, per ecosystem, the whole table in one process in table order and in
    # reverse order: a range must denote its interval whatever was parsed before it in the same process
    shards = [jobs[i::nsh] for i in range(nsh)]
    for e in ECOS:
        je = [j for j in jobs if j["eco"] == e]
        shards += [je, je[::-1]]
    def one(k_sh):
        k, sh = k_sh
        jp, ep = run.path("jobs%d.ndjson" % k), run.path("ev%d.ndjson" % k)
        vlib.write_ndjson(jp, sh)
        vlib.run_harness(run, exe, jp, ep)
        mm, info = vlib.judge(run, ep, "C05", name="judge%d" % k, heap="4g")
        n = 0; skipped = 0; smp = None
        for e in vlib.read_ndjson(ep):
            n += len(e["probes"]) if e["parsed"] else 1
            skipped += len(e["skipped"])
            if smp is None and e["parsed"] and e["probes"]:
                smp = {"eco": e["eco"], "construct": e["construct"], "text": e["text"], "ivs": e["ivs"],
                       "probe": e["probes"][0], "contains": e["contains"][0]}
        return mm, n, skipped, smp
    with cf.ThreadPoolExecutor(max_workers=8) as ex:
        results = list(ex.map(one, list(enumerate(shards))))
    judged = 0; skipped = 0
    for mm, n, sk, smp in results:
        judged += n; skipped += sk
        if smp and len(run.samples) < 8: run.samples.append(smp)
        for m in mm:
            if m.get("known"):
                run.known[m["known"]] = run.known.get(m["known"], 0) + 1
            else:
                run.violations.append(m)
    per = {}
    for v in vecs:
        per.setdefault(v["eco"], {}).setdefault(v["construct"], 0)
        per[v["eco"]][v["construct"]] += 1
    run.extra["rows_per_construct"] = per
    run.extra["probes_rejected_by_version_parser_skipped"] = skipped
    # vacuity guard: the probes of a release level that the table declares for an ecosystem must not ALL be rejected by
    # that ecosystem's version parser (a spelling the parser does not accept would silently remove the whole class)
    seen = {}
    for k in range(len(shards)):
        for e in vlib.read_ndjson(run.path("ev%d.ndjson" % k)):
            if not e["parsed"]: continue
            for pr in e["probes"]:
                seen.setdefault((e["eco"], pr["p"][3]), [0, 0])[0] += 1
            for t in e["skipped"]:
                seen.setdefault((e["eco"], "skipped"), [0, 0])[1] += 1
    per_level = {"%s/level%s" % k: v[0] for k, v in sorted(seen.items(), key=str) if k[1] != "skipped"}
    run.extra["probes_judged_per_ecosystem_and_level"] = per_level
    for e in ECOS:
        if seen.get((e, "skipped"), [0, 0])[1] and not any(k[0] == e and k[1] in (1, 2) for k in seen if k[1] != "skipped"):
            raise vlib.Infra("vacuous: every pre-release probe of %s was rejected by its version parser" % e)
    run.assumptions = ["the table of Shorthand.tla states each ecosystem's documented interval (sources cited in the module); "
                       "probe order is the 4-tuple order (numbers, then pre < final < post), which C03/C08/C09 bind to Compare",
                       "pre-release probes only just below a full base and, for npm, at the documented '-0' upper bound; composer probes stable; pypi probes final or post"]
    return vlib.finish(run, rule="every row of the shorthand table (9 ecosystems x constructs x arities x bases {0,1,2,9}^2 x {0,3,9}; thorough: {0,1,2,9,10,99,100}^2 x {0,3,9,10,99}) x boundary probes (base, below base, interior, last before upper bound, upper bound, pre-release of upper bound for npm, above)",
                       exhaustive=True, judged=judged, min_judged=1000)

def replay(d):
    print(json.dumps(d, indent=1)); return 0
