"""C20 — membership depends only on a version's place in the order.
Range texts come from the two TLC generators (RangeGen.tla: comparator structures;
Shorthand.tla: shorthands, brackets, wildcards); versions are accepted members of the
TLC universes chosen so that many compare equal (spelling variants). The harness logs
the Compare matrix and every membership vector; TLC judges the two laws."""
import random, json, concurrent.futures as cf
import vlib, check_c02, check_c05

ECOS = ["alpine", "alpm", "apache", "cargo", "composer", "conan", "cran", "debian", "gem", "gentoo", "github",
        "golang", "hex", "mattermost", "maven", "npm", "nuget", "pypi", "rpm", "semver"]

def choose_versions(run, exe, U, acc, rnd, nclass, nsingle):
    """per ecosystem: a version list rich in Compare-equal, textually different members"""
    part = {e: dict(U[e]) for e in U}
    jobs = []
    sample = {}
    # plain numeric versions spelled with 1-4 parts (1, 1.0, 1.0.0, 1.0.0.0, v1.0, ...): the bases of the shorthand
    # rows and their equal-comparing spellings, so that every run holds classes around the range bounds
    fam = {e: [pre + ".".join(str(n) for n in ns) for pre in ("", "v")
               for ns in ([x] + [0] * k for x in (0, 1, 2, 9, 10) for k in range(4))] +
              ["%d.%d%s" % (x, y, z) for x in (0, 1, 2) for y in (1, 2, 10) for z in ("", ".0", ".0.0")] +
              # epochs and pre-releases around the same numbers (whatever spelling the ecosystem accepts)
              [ep + v for ep in ("1!", "2!", "0:", "1:") for v in ("1.0", "1.0.3", "2.0", "0.9")] +
              [v + q for v in ("1.0", "1.0.0", "2.0.0", "1.1") for q in ("-rc1", ".rc1", "rc1", "-alpha", "-alpha.1", "a1", "_rc1", "~rc1", "-SNAPSHOT", ".dev1", "-beta")] +
              # zero parts spelled with several digits, and pre-release identifiers around the limits of machine integers next
              # to digit-led alphanumerics: where an order stops being transitive first (the lists C07 sorts come from here)
              # around exact-match operators: letter case of a pre-release label, a release / revision present or absent
              ["1.0.0-RC.1", "1.0.0-rc.1", "1.0.0-Zeta", "1.0.0-beta.1", "1.0.0-beta.01", "1.2.3", "1.2.3-2", "1.2.3-5", "1.2.3-9", "1.0-2", "1.0-5", "1.0-r2", "1.0-r5"] +
              ["1.00", "1.0.00", "1.000", "01.0", "2.5.000", "1.05", "1.010", "1.01", "2.05.1", "1.1_alpha", "1.1_rc1", "1.1-r1", "1.1_p1", "1.2"] +
              [st + "-" + i for st in ("1.0.0", "v1.0.0") for i in ("5", "10", "9223372036854775808", "40000000000000000000", "100000000000000000000", "5a", "1a", "9a", "12", "100", "0a")]
              for e in ECOS}
    fam = vlib.accept_filter(run, exe, fam, name="fam")
    famset = {e: set(fam[e]) for e in ECOS}
    for e in ECOS:
        sample[e] = rnd.sample(acc[e], min(len(acc[e]), 420 if run.tier == "quick" else 3000))
        sample[e] += [t for t in fam[e] if t not in set(sample[e])]
        jobs.append({"k": "matrix", "eco": e, "tag": "pre", "texts": sample[e], "part": [vlib.part_of(e, t) for t in sample[e]]})
    jp, ep = run.path("pre.jobs"), run.path("pre.ev")
    vlib.write_ndjson(jp, jobs); vlib.run_harness(run, exe, jp, ep)
    out = {}
    run.suspects = {}
    for ev in vlib.read_ndjson(ep):
        e = ev["eco"]; T = ev["texts"]; M = ev["m"]; P = ev["part"]
        run.suspects[e] = suspects(T, M, P)
        seen = set(); classes = []
        for i in range(len(T)):
            if i in seen: continue
            cl = [k for k in range(len(T)) if M[i][k] == 0 and M[k][i] == 0 and P[i] == P[k]]
            seen.update(cl)
            if len(cl) > 1: classes.append(cl)
        rnd.shuffle(classes)
        famcl = [cl for cl in classes if any(T[i] in famset[e] for i in cl)]
        classes = famcl + [cl for cl in classes if cl not in famcl]
        chosen = []
        for cl in classes[:max(nclass, len(famcl) + nclass // 2)]:
            infam = [i for i in cl if T[i] in famset[e]]
            pickfrom = rnd.sample(infam, min(len(infam), 3))
            chosen += pickfrom + rnd.sample([i for i in cl if i not in pickfrom], min(len(cl) - len(pickfrom), 3 - len(pickfrom)))
        chosen += [i for i in range(len(T)) if T[i] in famset[e]]          # every family member, also the ones without an equal
        rest = [i for i in range(len(T)) if i not in set(chosen)]
        chosen += rnd.sample(rest, min(len(rest), nsingle))
        out[e] = [T[i] for i in sorted(set(chosen))]
    return out, part

def suspects(T, M, P, limit=12):
    """generator heuristic only (never a verdict): triples of the sample whose observed signs look
    intransitive (found through pairs a rank does not explain); they are handed to the real sort as inputs"""
    n = len(T)
    R = [sum(1 for k in range(n) if P[k] == P[i] and M[k][i] < 0) for i in range(n)]
    sgn = lambda x: (x > 0) - (x < 0)
    out = []
    for i in range(n):
        for j in range(n):
            if P[i] != P[j] or M[i][j] == sgn(R[i] - R[j]): continue
            for k in range(n):
                if P[k] != P[i] or k in (i, j): continue
                a, b, c = M[i][k], M[k][j], M[i][j]
                if (a <= 0 and b <= 0 and (c > 0 or ((a < 0 or b < 0) and c >= 0))) or (a >= 0 and b >= 0 and (c < 0 or ((a > 0 or b > 0) and c <= 0))):
                    out.append([T[i], T[k], T[j]])
                    break
            if len(out) >= limit: return out
    return out

def check(run):
    quick = run.tier == "quick"
    exe = vlib.build_harness(run)
    U = vlib.universe(run, ECOS)
    acc = vlib.accepted(run, exe, U, regex_extra=200 if quick else 1500, rnd=random.Random(run.seed + 7), tokens=2 if quick else 3, tokens_cap=300 if quick else 1500)
    rnd = random.Random(run.seed)
    rounds = 1 if quick else 4
    jobs = []
    nranges = 0
    shvecs = check_c05.vectors(run)
    for r in range(rounds):
        versions, part = choose_versions(run, exe, U, acc, rnd, 14 if quick else 25, 14 if quick else 30)
        cjobs = check_c02.gen_round(run, exe, {e: acc[e] for e in check_c02.ECOS}, rnd, r, 0)
        # spelling variants of this round's range bounds (letter case, v prefix, build metadata, trailing zero part) join the
        # members: equal-comparing and neighbouring versions exactly where the ranges have their edges
        bnds = {}
        for j in cjobs: bnds.setdefault(j["eco"], set()).update(j["bounds"])
        var = vlib.accept_filter(run, exe, {e: [x for b in sorted(bnds.get(e, ())) for x in
                                                (b.lower(), b.upper(), b.swapcase(), "v" + b, b.lstrip("vV"), b + "+b1", b + ".0", b, b.title())] for e in ECOS}, name="bvar%d" % r)
        for e in ECOS:
            versions[e] = list(dict.fromkeys(versions[e] + var[e]))
        by = {e: [] for e in ECOS}
        must = {}
        for j in cjobs:
            convex = len(j["groups"]) == 1 and all(c["op"] != "ne" for c in j["groups"][0])
            by[j["eco"]].append({"text": j["text"], "convex": convex})
        if r == 0:
            # plain comparator ranges on the family numbers (whatever the ecosystem's parser accepts of them; all of them
            # single conjunctions, hence convex): the members around 1.0 / 1.1 / 2.0 meet bounds at exactly those numbers
            for e in ECOS:
                for b in ("1.1", "1.0", "2.0", "1.1.0", "v1.1.0", "1.0.0"):
                    for t in (">=" + b, "<" + b, ">" + b, "<=" + b, ">= " + b):
                        must.setdefault(e, []).append({"text": t, "convex": True})
                for t in ("=1.0.0-RC.1", "[1.0.0-RC.1]", "==1.0.0-RC.1", "1.0.0-RC.1", "=1.2.3-5", "=1.0-5", "= 1.2.3-5", "[1.2.3-5]", "=1.0-r5"):
                    must.setdefault(e, []).append({"text": t, "convex": True})      # one point: convex
                for t in (">=1.1 <3.0", ">=1.1,<3.0", ">=1.1, <3.0", ">=1.1.0 <3.0.0", ">1.0 <=2.0", ">=1.1 and <3.0"):
                    must.setdefault(e, []).append({"text": t, "convex": True})
            ptexts = {}
            for v in shvecs:
                by[v["eco"]].append({"text": v["text"], "convex": (not v["neg"]) and len(v["ivs"]) == 1})
                ptexts.setdefault(v["eco"], set()).update(p["t"] for p in v["probes"])
            # the boundary probes of the shorthand table (base, below, interior pre-releases, last before the upper bound, ...)
            # are members too: a shorthand range must be convex over them
            for e in ptexts:
                pool = sorted(ptexts[e])
                versions[e] = list(dict.fromkeys(versions[e] + rnd.sample(pool, min(len(pool), 70))))
        for e in ECOS:
            rs = by[e]
            if quick and len(rs) > 500:
                rs = rnd.sample(rs, 500)
            rs = rs + must.get(e, [])
            nranges += len(rs)
            for i in range(0, len(rs), 250):
                jobs.append({"k": "members", "eco": e, "texts": versions[e], "part": [vlib.part_of(e, t) for t in versions[e]],
                             "ranges": rs[i:i + 250]})
    nsh = 8
    shards = [jobs[i::nsh] for i in range(nsh)]
    def one(k_sh):
        k, sh = k_sh
        jp, ep = run.path("jobs%d.ndjson" % k), run.path("ev%d.ndjson" % k)
        vlib.write_ndjson(jp, sh); vlib.run_harness(run, exe, jp, ep)
        mm, info = vlib.judge(run, ep, "C20", name="judge%d" % k, heap="5g")
        n = 0; eqp = 0; smp = None
        for e in vlib.read_ndjson(ep):
            neq = sum(1 for i in range(e["n"]) for k2 in range(i + 1, e["n"]) if e["m"][i][k2] == 0 and e["part"][i] == e["part"][k2])
            n += len(e["ranges"]) * e["n"]; eqp += neq * len(e["ranges"])
            if smp is None and e["ranges"]:
                smp = {"eco": e["eco"], "versions": e["texts"][:6], "range": e["ranges"][0]["text"], "contains": e["ranges"][0]["contains"][:6]}
        return mm, n, eqp, smp
    with cf.ThreadPoolExecutor(max_workers=4) as ex:   # four judges at a time: the matrices of this check are the largest
        results = list(ex.map(one, list(enumerate(shards))))
    judged = 0; eqpairs = 0
    for mm, n, eqp, smp in results:
        judged += n; eqpairs += eqp
        if smp and len(run.samples) < 6: run.samples.append(smp)
        for m in mm:
            if m.get("known"):
                run.known[m["known"]] = run.known.get(m["known"], 0) + 1
            else:
                run.violations.append(m)
    run.extra["ranges"] = nranges
    run.extra["equal_pair_observations"] = eqpairs
    run.assumptions = ["range texts: the TLC-generated comparator structures (C02) and shorthand rows (C05) the real parser accepts; pypi '===' is not generated",
                       "versions: seeded members of the TLC universes, chosen with >= 14 Compare-equal classes of textually different spellings per ecosystem; alpm pairs are compared within their pkgrel partition"]
    return vlib.finish(run, rule="every accepted generated range text x every chosen version: equal-comparing pairs must agree on membership; ranges without alternatives/exclusions must be convex",
                       exhaustive=False, judged=judged, min_judged=1000)

def replay(d):
    print(json.dumps(d, indent=1)); return 0
