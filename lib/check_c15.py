"""C15 — the CLI is a faithful front end for the library.
TLC explores the CLI decision machine over every argument-vector shape (Cli.tla); each shape
is instantiated with concrete arguments (members of the TLC universes, generated range texts,
hostile strings), the real binary is executed, the library observation for the same arguments
is logged in the same event, and TLC judges stdout / exit status (CliSem.tla)."""
import random, json, os, concurrent.futures as cf
import vlib, check_c02, check_c05, versgen

ECOS = ["alpine", "alpm", "apache", "cargo", "composer", "conan", "cran", "debian", "gem", "gentoo", "github",
        "golang", "hex", "mattermost", "maven", "npm", "nuget", "pypi", "rpm", "semver"]
HOSTILE = ["", " ", "--", "-1", "--help", "1.0 ", " 1.0", "\"1.0\"", "'1.0'", "1.0\n2.0", "1 0", "\\", "1.0\\", "a\"b", "\t", "-v", "1.0;ls", "$(x)", "é1.0"]
UNKNOWN = ["nosuch", "NPM", "npm ", "", "--help", "Debian", "deb", "generic", "go", "rubygems", "vers ", "-"]
OTHERCMD = ["cmp", "Compare", "--sort", "", "contain", "help", "SORT"]

def codes(s): return list(s.encode("utf-8", "surrogatepass")) if isinstance(s, str) else list(s)

def shapes(run):
    cfg = "SPECIFICATION CliSpec\nINVARIANT SuccessIffAllStages\nINVARIANT ExitIsZeroOrOne\nINVARIANT Emit\nCHECK_DEADLOCK FALSE\n"
    lines, st, dt = vlib.tlc(run, "MC_Cli", cfg, workers=2, timeout=300, coverage=True)
    return vlib.tagged(lines, "VEC")

def materials(run, exe, rnd):
    U = vlib.universe(run, ECOS)
    acc = vlib.accepted(run, exe, U)
    rej = {e: [t for t, _ in U[e] if t not in set(acc[e])] for e in ECOS}
    rtexts = {e: [] for e in ECOS}
    for j in check_c02.gen_round(run, exe, {e: acc[e] for e in check_c02.ECOS}, rnd, 0, 0): rtexts[j["eco"]].append(j["text"])
    for v in check_c05.vectors(run): rtexts[v["eco"]].append(v["text"])
    rtexts["maven"] = rtexts["maven"] or ["[1.0,2.0]"]
    return U, acc, rej, rtexts

def make_args(e, cmd, nargs, parses, acc, rej, rtexts, rnd, allacc):
    good = lambda: rnd.choice(acc[e])
    bad = lambda: rnd.choice((rej[e] or ["not-a-version"]) + HOSTILE + [rnd.choice(allacc)])
    if cmd == "contains":
        args = [rnd.choice(rtexts[e]) if rnd.random() < 0.85 else rnd.choice(HOSTILE)] + [good() for _ in range(max(0, nargs - 1))]
        args = args[:nargs]
        if not parses and nargs >= 1:
            k = rnd.randrange(nargs)
            args[k] = bad() if k > 0 else rnd.choice(["", "(", ">=", "[1.0", "~>", "1.0 - ", "not a range ^^"])
        return args
    args = [good() for _ in range(nargs)]
    if not parses and nargs >= 1:
        args[rnd.randrange(nargs)] = bad()
        if nargs >= 2 and rnd.random() < 0.4:      # the same invalid text in every position
            args = [args[[i for i in range(nargs) if args[i] not in acc[e]][0] if any(a not in acc[e] for a in args) else 0]] * nargs
    elif nargs >= 2 and rnd.random() < 0.2:        # the same valid text in every position
        args = [args[0]] * nargs
    return args

def check(run):
    quick = run.tier == "quick"
    exe = vlib.build_harness(run)
    cli = vlib.build_cli(run)
    rnd = random.Random(run.seed)
    sh = shapes(run)
    U, acc, rej, rtexts = materials(run, exe, rnd)
    ch = versgen.chains(run)
    allacc = [t for e in ECOS for t in acc[e][:50]]
    runs = []
    reps = 2 if quick else 50
    for s in sh:
        names = ECOS if s["name"] == "eco" else ["vers"] if s["name"] == "vers" else UNKNOWN if s["name"] == "unknown" else [None]
        for nm in names:
            for _ in range(reps if s["name"] == "eco" else reps * 3):
                if nm is None:
                    runs.append({"tag": "shape", "argv": []}); continue
                argv = [nm]
                if s["cmd"] != "absent":
                    argv.append(rnd.choice(OTHERCMD) if s["cmd"] == "other" else s["cmd"])
                    if nm in ECOS:
                        argv += make_args(nm, s["cmd"], s["nargs"], s["parses"], acc, rej, rtexts, rnd, allacc)
                    elif nm == "vers":
                        sc = rnd.choice(versgen.SCHEMES)
                        vr = "vers:%s/>=%s|<%s" % (sc, ch[sc][3], ch[sc][9]) if s["parses"] else rnd.choice(["vers:%s/" % sc, "vers:zzz/>=1.0", ">=1.0", "vers:%s/>=%s|<" % (sc, ch[sc][3])])
                        args = [vr] + [rnd.choice(ch[sc]) for _ in range(max(0, s["nargs"] - 1))]
                        argv += args[:s["nargs"]]
                    else:
                        argv += [rnd.choice(allacc) for _ in range(s["nargs"])]
                runs.append({"tag": "shape", "argv": [codes(a) for a in argv]})
    # registry wiring: per name, operations on that ecosystem's own (and foreign) texts
    for e in ECOS:
        n = 25 if quick else 300
        for _ in range(n):
            pool = acc[e] if rnd.random() < 0.8 else allacc
            runs.append({"tag": "wiring", "argv": [codes(x) for x in [e, "compare", rnd.choice(pool), rnd.choice(pool)]]})
        for _ in range(n // 2):
            runs.append({"tag": "wiring", "argv": [codes(x) for x in [e, "contains", rnd.choice(rtexts[e]), rnd.choice(acc[e])]]})
        for _ in range(n // 3):
            k = rnd.randint(1, 6)
            runs.append({"tag": "wiring", "argv": [codes(x) for x in [e, "sort"] + [rnd.choice(acc[e]) for _ in range(k)]]})
        # sort with blank-padded spellings (tab, CR, LF): what String() returns for them has to come out quoted exactly
        for _ in range(3 if quick else 12):
            items = [rnd.choice(["\t%s", "%s\n", " %s ", "%s\r\n", "%s"]) % rnd.choice(acc[e]) for _ in range(rnd.randint(2, 4))]
            runs.append({"tag": "wiring", "argv": [codes(x) for x in [e, "sort"] + items]})
    # long but valid arguments (300 / 1000 bytes): a size limit in front of the library must not exist in the CLI only
    import re
    longc = {}
    for e in ECOS:
        c = []
        for t in rnd.sample(acc[e], min(len(acc[e]), 6)):
            rs = list(re.finditer(r"[A-Za-z]+", t)) or list(re.finditer(r"[0-9]+", t))
            if rs:
                m = rs[-1]
                c += [t[:m.end()] + t[m.end() - 1] * (L - len(t)) + t[m.end():] for L in (300, 1000) if L > len(t)]
        longc[e] = c
    longv = vlib.accept_filter(run, exe, longc, name="longarg")
    for e in ECOS:
        for t in longv[e][:3 if quick else 8]:
            runs.append({"tag": "wiring", "argv": [codes(x) for x in [e, "compare", t, rnd.choice(acc[e])]]})
            runs.append({"tag": "wiring", "argv": [codes(x) for x in [e, "sort", rnd.choice(acc[e]), t]]})
            if rtexts[e]:
                runs.append({"tag": "wiring", "argv": [codes(x) for x in [e, "contains", rnd.choice(rtexts[e]), t]]})
    for sc in versgen.SCHEMES:
        for t in longv[versgen.ECO_OF.get(sc, sc)][:2]:
            runs.append({"tag": "wiring", "argv": [codes(x) for x in ["vers", "contains", "vers:%s/<%s" % (sc, t), ch[sc][3]]]})
            runs.append({"tag": "wiring", "argv": [codes(x) for x in ["vers", "contains", "vers:%s/>=%s" % (sc, ch[sc][1]), t]]})
    # the star range is answered before the version is looked at: whatever the library says for a blank or invalid
    # version there is what the CLI has to print
    for sc in versgen.SCHEMES:
        for star in ("*", " * "):
            for p in ("", " ", "\t", "not a version", ch[sc][2]):
                runs.append({"tag": "wiring", "argv": [codes(x) for x in ["vers", "contains", "vers:%s/%s" % (sc, star), p]]})
    # dash-led arguments (-1 is a version for some ecosystems; -r, -h, --help, -- look like flags): passed on untouched
    for e in ECOS:
        for d in ("-1", "-r", "--reverse", "-h", "--help", "--", "-"):
            v = rnd.choice(acc[e])
            runs.append({"tag": "wiring", "argv": [codes(x) for x in [e, "sort", d, v]]})
            runs.append({"tag": "wiring", "argv": [codes(x) for x in [e, "sort", v, d]]})
            runs.append({"tag": "wiring", "argv": [codes(x) for x in [e, "compare", d, v]]})
    ch2 = versgen.chains(run, chain=2)      # build metadata (+), tildes, epochs, upper case: nothing may be decoded or folded on the way
    for sc in versgen.SCHEMES:
        for _ in range(6 if quick else 40):
            a, b = sorted(rnd.sample(range(17), 2))
            runs.append({"tag": "wiring", "argv": [codes(x) for x in ["vers", "contains", "vers:%s/>=%s|<%s" % (sc, ch[sc][a], ch[sc][b]), rnd.choice(ch[sc])]]})
        special = [t for t in ch2[sc] if any(c in t for c in "+~%:!")] or ch2[sc][:2]
        for t in special[:6]:
            for op in (">=", "!="):
                runs.append({"tag": "wiring", "argv": [codes(x) for x in ["vers", "contains", "vers:%s/%s%s" % (sc, op, t), rnd.choice(ch2[sc])]]})
                runs.append({"tag": "wiring", "argv": [codes(x) for x in ["vers", "contains", "vers:%s/%s%s" % (sc, op, t), t]]})
    # VERS front end on the universes' own members (mixed case, build metadata, epochs): one-constraint
    # ranges are always well-formed, so the CLI must print exactly the library's answer for the text as given
    for sc in versgen.SCHEMES:
        pool = acc[versgen.ECO_OF.get(sc, sc)]
        cased = [t for t in pool if t.lower() != t] or pool
        for _ in range(10 if quick else 60):
            b = rnd.choice(cased if rnd.random() < 0.6 else pool)
            p = rnd.choice(pool if rnd.random() < 0.7 else [b, b.lower(), b.upper()])
            pre = rnd.choice(["vers:%s/" % sc] * 6 + ["VERS:%s/" % sc, "vers:%s/" % sc.upper(), "Vers:%s/" % sc.capitalize()])
            runs.append({"tag": "wiring", "argv": [codes(x) for x in ["vers", "contains", pre + rnd.choice(["<", "<=", ">", ">=", "=", "!=", ""]) + b, p]]})
    # arguments in the wrong role: a text that is a valid version but not a valid range as the range of `contains`
    # (unclosed brackets, operator fragments around a version), with a valid version second - and the valid pair swapped
    cand = {e: list(dict.fromkeys(rnd.sample(acc[e], min(len(acc[e]), 60)) +
                                  [a + v + b for v in rnd.sample(acc[e], min(len(acc[e]), 12))
                                   for a, b in (("[", ""), ("(", ""), ("", "]"), ("", ")"), ("[", ",2.0"), ("", " >"), ("> =", ""), ("", ","))])) for e in ECOS}
    jp, ep = run.path("role.jobs"), run.path("role.ev")
    vlib.write_ndjson(jp, [{"k": "accept", "eco": e, "texts": cand[e]} for e in ECOS]); vlib.run_harness(run, exe, jp, ep)
    nrole = 0
    for ev in vlib.read_ndjson(ep):
        e = ev["eco"]
        vnotr = [t for t, okv, okr in zip(ev["texts"], ev["ok"], ev["okr"]) if okv and not okr]
        for x in vnotr[:12 if quick else 60]:
            runs.append({"tag": "wiring", "argv": [codes(a) for a in [e, "contains", x, rnd.choice(acc[e])]]}); nrole += 1
        for _ in range(4 if quick else 20):
            runs.append({"tag": "wiring", "argv": [codes(a) for a in [e, "contains", rnd.choice(acc[e]), rnd.choice(rtexts[e])]]})
    run.extra["wrong_role_runs"] = nrole
    rnd.shuffle(runs)
    nsh = 8
    shards = [runs[i::nsh] for i in range(nsh)]
    def one(k_sh):
        k, sh_ = k_sh
        jp, ep = run.path("jobs%d.ndjson" % k), run.path("ev%d.ndjson" % k)
        vlib.write_ndjson(jp, [{"k": "cli", "runs": sh_[i:i + 200]} for i in range(0, len(sh_), 200)])
        vlib.run_harness(run, exe, jp, ep, env={"VERIF_CLI": cli})
        mm, info = vlib.judge(run, ep, "C15", name="judge%d" % k, heap="4g")
        evs = vlib.read_ndjson(ep)
        ok0 = sum(1 for e in evs if e["exit"] == 0)
        smp = [e for e in evs if e["exit"] == 0][:1] + [e for e in evs if e["exit"] == 1][:1]
        return mm, len(evs), ok0, smp
    with cf.ThreadPoolExecutor(max_workers=4) as ex:
        results = list(ex.map(one, list(enumerate(shards))))
    judged = 0; ok0 = 0
    for mm, n, o, smp in results:
        judged += n; ok0 += o
        for e in smp:
            if len(run.samples) < 6:
                run.samples.append({"argv": e["show"], "stdout": bytes(e["stdout"]).decode("utf-8", "replace"), "exit": e["exit"], "lib": e["lib"]["kind"]})
        for m in mm:
            if m.get("known"):
                run.known[m["known"]] = run.known.get(m["known"], 0) + 1
            else:
                run.violations.append(m)
    run.extra["shapes"] = len(sh); run.extra["executions"] = judged; run.extra["exit0"] = ok0
    run.assumptions = ["arguments are members of the TLC universes / generated range texts / a hostile set (spaces, quotes, leading dashes, empty strings, newline, NUL-free bytes); the oracle is the library observation logged in the same event",
                       "sort output is compared only when every String() consists of printable ASCII, newline, tab or CR (Go %q escaping of other bytes is not modelled)"]
    return vlib.finish(run, rule="every argv shape of the CLI decision machine (name kind x command kind x 0..5 arguments x parses/fails) x 20 ecosystem names + vers + unknown names, plus per-name wiring runs on the ecosystem's own texts",
                       exhaustive=True, judged=judged, min_judged=500)

def replay(d):
    print(json.dumps(d, indent=1)); return 0
