"""Diagnostics only (never a verdict): extract a shortest human-readable witness
(self pair, swapped pair, 3-cycle / broken transitivity) from an observed matrix."""
def witnesses(ev, limit=5):
    M, T, P = ev["m"], ev["texts"], ev["part"]
    n = ev["n"]; out = []
    for i in range(n):
        if M[i][i] != 0:
            out.append(("refl", T[i], M[i][i]))
            if len(out) >= limit: return out
    for i in range(n):
        for j in range(i + 1, n):
            if P[i] == P[j] and M[i][j] != -M[j][i]:
                out.append(("antisym", T[i], T[j], M[i][j], M[j][i]))
                if len(out) >= limit: return out
    # transitivity: find i<=j, j<=k but not i<=k (or strictness lost)
    import itertools
    for i in range(n):
        le_i = [j for j in range(n) if P[j] == P[i] and M[i][j] <= 0]
        for j in le_i:
            for k in range(n):
                if P[k] != P[i] or M[j][k] > 0: continue
                strict = M[i][j] < 0 or M[j][k] < 0
                if M[i][k] > 0 or (strict and M[i][k] >= 0):
                    out.append(("trans", T[i], T[j], T[k], M[i][j], M[j][k], M[i][k]))
                    if len(out) >= limit: return out
                    break
            else:
                continue
            break
    return out
