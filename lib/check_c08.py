"""C08 — SemVer-family precedence (reference: spec/SemVer.tla)."""
import refcheck

ECOS = ["semver", "npm", "cargo", "hex", "golang", "nuget"]
IDS = ["0", "1", "2", "10", "11", "123456789012345678", "123456789012345679", "100000000000000001", "100000000000000002", "9007199254740993", "9007199254740992", "alpha", "beta", "rc", "a", "A", "b", "B", "-5", "-", "a-b", "0a", "x", "X", "alpha1", "1a", "Rc"]
TS = ["20200101000000", "20200102000000", "20191231235959", "20200101000001"]
REV = ["abcdef012345", "0123456789ab", "ffffffffffff"]
def seeded(U, rnd, quick):
    jobs = []
    for eco in ECOS:
        for r in range(2 if quick else 12):
            texts = set()
            cores = [".".join(str(rnd.choice([0, 1, 2, 10])) for _ in range(3)) for _ in range(3)]
            while len(texts) < 110:
                s = rnd.choice(cores)
                if eco == "nuget" and rnd.random() < 0.3: s += "." + str(rnd.choice([0, 1, 2]))
                if rnd.random() < 0.85:
                    n = rnd.choice([1, 1, 2, 2, 3, 4, 5, 6])
                    ids = [rnd.choice(IDS) for _ in range(n)]
                    if eco == "nuget": ids = [i.lower() for i in ids]
                    s += "-" + ".".join(ids)
                if rnd.random() < 0.25: s += "+" + rnd.choice(["b1", "001", "build.5", "a-b"])
                if eco in ("golang",) or (eco in ("npm", "nuget") and rnd.random() < 0.3): s = "v" + s
                texts.add(s)
            if eco == "golang":
                for _ in range(30):
                    ts, rv = rnd.choice(TS), rnd.choice(REV)
                    M, m, p = rnd.choice([0, 1, 2]), rnd.choice([0, 1, 2]), rnd.choice([0, 1, 2, 3])
                    pv = rnd.choice(["v%d.0.0-%s-%s" % (M, ts, rv), "v%d.%d.%d-0.%s-%s" % (M, m, p, ts, rv),
                                     "v%d.%d.%d-%s.0.%s-%s" % (M, m, p, rnd.choice(["pre", "rc.1", "alpha", "0"]), ts, rv)])
                    texts.add(pv)
                    if rnd.random() < 0.5:      # the same pseudo-version with build metadata: ignored by precedence
                        texts.add(pv + rnd.choice(["+incompatible", "+meta.1", "+b"]))
                    texts.add("v%d.%d.%d" % (M, m, p)); texts.add("v%d.%d.%d-%s" % (M, m, p, rnd.choice(["0", "pre", "rc.1", "alpha", "pre.0", "1"])))
            jobs.append({"k": "matrix", "eco": eco, "tag": "seeded", "texts": sorted(texts), "part": []})
        # fixed family: build metadata with hyphens and dots next to the same core with and without a pre-release (the first
        # '-' of the text may belong to the build metadata), identifiers that are a prefix of each other, numeric 0 tails
        pre = "v" if eco == "golang" else ""
        fam = [pre + c + x for c in ("1.0.0", "1.4.0") for x in ("", "+build-1", "+build-2", "+linux-amd64", "+a.b-c", "-1", "-1+build-1", "-rc.1", "-rc.1+build-1",
                                                                 "-rc.1.0", "-rc", "-rc-1", "-a.b", "-a-b", "-alpha", "-alpha.0", "-alpha.1", "-alpha.1.beta", "-alpha.1.gamma", "-0")]
        jobs.append({"k": "matrix", "eco": eco, "tag": "seeded", "texts": fam, "part": []})
    return jobs

def check(run):
    return refcheck.run_ref(run, "C08", ECOS, (700, 4000), seeded_fn=seeded, boundary_max=10**18 - 1,  # the property claims digit identifiers "up to 18 digits"
        rule="pairs of in-scope members within blocks of <=350 members of the six TLC-generated universes + seeded versions with 1-6 pre-release identifiers and Go pseudo-versions; judged by SemVer.tla; for the strict semver ecosystem also accepted <=> SvStrictValid on every generated text",
        assumptions=["SemVer.tla transcribes SemVer 2.0.0 sections 2, 9, 10, 11 (audited against node-semver and x/mod/semver by `vcheck audit C08`)"])
