"""Shared VERS machinery for C04/C16/C17: model-check the sweep (Vers.tla), collect the
range vectors TLC emits, check that the per-scheme chains are strictly increasing under
the real Compare (else exit 2: the chain would not be a faithful image of the abstract order)."""
import json, re
import vlib

SCHEMES = ["alpine", "cargo", "deb", "gem", "generic", "golang", "maven", "npm", "nuget", "pypi", "rpm"]
ECO_OF = {"deb": "debian", "generic": "semver"}

def model(run, K, schemes=SCHEMES, name=None, timeout=1500):
    cfg = vlib.cfg_consts(K=K, Schemes=set(schemes)) + \
        "INIT VInit\nNEXT VNext\nINVARIANT SweepIsDen\nINVARIANT SingleIsComparator\nINVARIANT Emit\nCHECK_DEADLOCK FALSE\n"
    lines, st, dt = vlib.tlc(run, "MC_Vers", cfg, name=name or ("vers.K%d" % K), workers=8, timeout=timeout, heap="8g")
    return vlib.tagged(lines, "VEC")

def chains(run):
    """read the chains out of Vers.tla by asking TLC to print them (single source of truth)"""
    mod = "---- MODULE MC_Chains ----\nEXTENDS Vers, Json\nASSUME PrintT(<<\"VEC\", ToJson([s \\in AllSchemes |-> Chain(s)])>>)\n====\n"
    cfg = vlib.cfg_consts(K=1, Schemes={"npm"}) + "INIT VInit\nNEXT VNext\nCHECK_DEADLOCK FALSE\n"
    lines, st, dt = vlib.tlc(run, "MC_Chains", cfg, workers=1, timeout=300, extra_files={"MC_Chains.tla": mod}, count=False)
    return vlib.tagged(lines, "VEC")[0]

def check_chains(run, exe, ch):
    jobs = [{"k": "matrix", "eco": ECO_OF.get(s, s), "tag": s, "texts": ch[s], "part": []} for s in SCHEMES]
    jp, ep = run.path("chain.jobs"), run.path("chain.ev")
    vlib.write_ndjson(jp, jobs); vlib.run_harness(run, exe, jp, ep)
    for ev in vlib.read_ndjson(ep):
        if ev["n"] != len(ch[ev["tag"]]):
            raise vlib.Infra("chain of %s has members the parser rejects: %r" % (ev["tag"], ev.get("rejtexts")))
        for i in range(ev["n"]):
            for k in range(ev["n"]):
                want = (i > k) - (i < k)
                if ev["m"][i][k] != want:
                    raise vlib.Infra("chain of %s is not strictly increasing under the real Compare at (%s, %s): got %d"
                                     % (ev["tag"], ev["texts"][i], ev["texts"][k], ev["m"][i][k]))
