"""Shared VERS machinery for C04/C16/C17: model-check the sweep (Vers.tla), collect the
range vectors TLC emits, check that the per-scheme chains are strictly increasing under
the real Compare (else exit 2: the chain would not be a faithful image of the abstract order)."""
import json, re
import vlib

SCHEMES = ["alpine", "cargo", "deb", "gem", "generic", "golang", "maven", "npm", "nuget", "pypi", "rpm"]
ECO_OF = {"deb": "debian", "generic": "semver"}

def model(run, K, schemes=SCHEMES, name=None, timeout=1500, chain=1):
    cfg = vlib.cfg_consts(K=K, Schemes=set(schemes), ChainNo=chain) + \
        "INIT VInit\nNEXT VNext\nINVARIANT SweepIsDen\nINVARIANT SingleIsComparator\nINVARIANT Emit\nCHECK_DEADLOCK FALSE\n"
    lines, st, dt = vlib.tlc(run, "MC_Vers", cfg, name=name or ("vers.K%d.c%d" % (K, chain)), workers=8, timeout=timeout, heap="8g", coverage=(chain == 1))
    return vlib.tagged(lines, "VEC")

def chains(run, chain=1):
    """read the chains out of Vers.tla by asking TLC to print them (single source of truth)"""
    mod = "---- MODULE MC_Chains ----\nEXTENDS Vers, Json\nASSUME PrintT(<<\"VEC\", ToJson([s \\in AllSchemes |-> TheChain(s)])>>)\nASSUME PrintT(<<\"PREPOS\", ToJson([p |-> ThePrePos])>>)\n====\n"
    cfg = vlib.cfg_consts(K=1, Schemes={"npm"}, ChainNo=chain) + "INIT VInit\nNEXT VNext\nCHECK_DEADLOCK FALSE\n"
    lines, st, dt = vlib.tlc(run, "MC_Chains", cfg, name="chains%d" % chain, workers=1, timeout=300, extra_files={"MC_Chains.tla": mod}, count=False)
    global PYPI_PREPOS2
    PREPOS[chain] = vlib.tagged(lines, "PREPOS")[0]["p"]
    if chain == 2:
        PYPI_PREPOS2 = PREPOS[chain]
    return vlib.tagged(lines, "VEC")[0]

PYPI_PREPOS2 = []
PREPOS = {}          # chain family -> positions holding a pypi pre-/dev-release

def check_chains(run, exe, ch):
    jobs = [{"k": "matrix", "eco": ECO_OF.get(s, s), "tag": s, "texts": ch[s], "part": []} for s in SCHEMES]
    jp, ep = run.path("chain.jobs"), run.path("chain.ev")
    vlib.write_ndjson(jp, jobs); vlib.run_harness(run, exe, jp, ep)
    for ev in vlib.read_ndjson(ep):
        if ev["n"] != len(ch[ev["tag"]]):
            raise vlib.Infra("chain of %s has members the parser rejects: %r" % (ev["tag"], ev.get("rejtexts")))
        for i in range(ev["n"]):
            for k in range(ev["n"]):
                want = (i > k) - (i < k)
                if ev["m"][i][k] != want:
                    raise vlib.Infra("chain of %s is not strictly increasing under the real Compare at (%s, %s): got %d"
                                     % (ev["tag"], ev["texts"][i], ev["texts"][k], ev["m"][i][k]))
