"""C09 — PyPI orders as PEP 440 / packaging (reference: spec/Pep440.tla)."""
import refcheck

def gen(rnd):
    s = ""
    if rnd.random() < 0.25: s += str(rnd.choice([0, 1, 2])) + "!"
    n = rnd.choice([1, 2, 2, 3, 3, 4, 5])
    s += ".".join(str(rnd.choice([0, 0, 1, 1, 2, 10, 11])) for _ in range(n))
    if rnd.random() < 0.5: s += rnd.choice(["", "."]) + rnd.choice(["a", "b", "rc", "alpha", "beta", "c"]) + str(rnd.choice([0, 1, 2, 10]))
    if rnd.random() < 0.4: s += rnd.choice(["", "."]) + rnd.choice(["post", "rev", "r"]) + str(rnd.choice([0, 1, 2, 10]))
    if rnd.random() < 0.4: s += rnd.choice(["", "."]) + "dev" + str(rnd.choice([0, 1, 2, 10]))
    if rnd.random() < 0.3: s += "+" + rnd.choice(["abc", "1", "abc.1", "1.abc", "ubuntu-1", "2", "ABC", "abd", "10", "abc_1", "1.0", "a.b.c", "01"])
    return s
def seeded(U, rnd, quick):
    jobs = []
    for r in range(4 if quick else 120):
        texts = set()
        while len(texts) < 150: texts.add(gen(rnd))
        jobs.append({"k": "matrix", "eco": "pypi", "tag": "seeded", "texts": sorted(texts), "part": []})
    return jobs

def check(run):
    return refcheck.run_ref(run, "C09", ["pypi"], (1050, 8000), seeded_fn=seeded,
        rule="pairs of members within blocks of <=350 members of the TLC-generated universe (every present/absent combination of epoch, pre, post, dev, local; spelling variants) + seeded versions; judged by Pep440.tla (packaging._cmpkey)",
        assumptions=["Pep440.tla transcribes packaging's sort key (audited against packaging 26.3 by `vcheck audit C09`)"])
