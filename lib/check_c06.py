"""C06 — every entry point is total: no panic, no hang, value xor error.
TLC explores the string-builder machine of Totality.tla (all byte strings up to length L over
the syntax-relevant alphabet) and the long-input families; each string is fed to all 40 parsers,
to vers.Contains in every role and (short strings) to the CLI in every argument position; accepted
values are observed; TLC judges the outcome codes against the life-cycle contract (Api.tla:
only "value" or "error" exist) and the quadratic time budget."""
import random, json, concurrent.futures as cf
import vlib, check_c15

SIGMA = [48, 49, 57, 97, 120, 46, 45, 43, 126, 94, 42, 32, 62, 61, 124, 91, 44, 0, 255, 195]

def strings(run, L):
    cfg = vlib.cfg_consts(Sigma=set(SIGMA), L=L) + "SPECIFICATION TotSpec\nINVARIANT Emit\nINVARIANT EmitLongs\nCHECK_DEADLOCK FALSE\n"
    lines, st, dt = vlib.tlc(run, "MC_Totality", cfg, workers=8, timeout=1800, heap="8g")
    return [v["bytes"] for v in vlib.tagged(lines, "VEC")], vlib.tagged(lines, "LONGS")[0]["longs"]

def garbage(rnd, acc_texts, n):
    """B2: seeded structured garbage - mutations of valid texts with arbitrary bytes, unbalanced brackets, operator-only"""
    out = []
    pieces = [b"(", b")", b"[", b"]", b",", b">=", b"<", b"!=", b"~>", b"^", b"~", b"||", b" - ", b"*", b".x", b"vers:", b"/", b"|", b"\x00", b"\xff", b"\xc3\x28", b"\xe2\x82", b"\t", b"\n", b"=", b"@", b"-r", b"_p", b"+", b":"]
    for _ in range(n):
        t = bytearray(rnd.choice(acc_texts).encode())
        for _ in range(rnd.randint(1, 4)):
            c = rnd.random(); pos = rnd.randint(0, len(t))
            if c < 0.4: t[pos:pos] = rnd.choice(pieces)
            elif c < 0.6 and t: del t[rnd.randrange(len(t))]
            elif c < 0.8 and t: t[rnd.randrange(len(t))] = rnd.randrange(256)
            else: t[pos:pos] = rnd.choice(pieces) * rnd.randint(2, 5)
        out.append(list(t))
    out += [list(p * k) for p in pieces for k in (1, 2, 3)]
    # operators and extra components around valid texts (systematic, not random)
    pre = [b"^", b"~", b"~>", b"~> ", b"~=", b">=", b"<", b"=", b"==", b"!=", b"[", b"(", b"v", b"*", b">= ", b"==="]
    suf = [b"", b".1", b".1.2", b".1.2.3", b".*", b".x", b"-", b"+", b",", b" - 2", b"||", b"]", b",)", b".0.0.0.0.0.0.0.0.0.0.0"]
    for t in rnd.sample(acc_texts, min(len(acc_texts), n // 20)):
        for a in pre:
            out.append(list(a + t.encode() + rnd.choice(suf)))
        for z in suf:
            out.append(list(rnd.choice(pre) + t.encode() + z))
    # non-ASCII letters and digits inside otherwise valid texts (parsers use unicode classes)
    for t in rnd.sample(acc_texts, min(len(acc_texts), n // 10)):
        for u in ("é", "ü", "١", "Ａ", "ß"):
            pos = rnd.randint(0, len(t))
            out.append(list((t[:pos] + u + t[pos:]).encode()))
            out.append(list((t + u).encode()))
    return out

def fuzz_corpus(run, exe, rnd, texts, seconds):
    """Thorough tier: Go's coverage-guided fuzzer as an input generator (harness/fuzz_test.go). Returns the inputs
    of the corpus it has accumulated (and of any input it stopped on); they are replayed and judged like all others."""
    import subprocess, os, shutil, hashlib
    hdir = os.path.join(vlib.VERIF, "harness")
    seeds = run.path("fuzz.seeds")
    with open(seeds, "w") as f:
        f.write("\n".join(t for t in rnd.sample(texts, min(len(texts), 600)) if "\n" not in t))
    modflag = []
    if os.path.realpath(vlib.REPO) != "/repo":
        modflag = ["-modfile=" + os.path.join(vlib.OUT, "bin", "go.%s.mod" % hashlib.md5(vlib.REPO.encode()).hexdigest()[:8])]
    env = dict(vlib.GOENV); env["VERIF_FUZZ_SEEDS"] = seeds
    crash = os.path.join(hdir, "testdata")
    shutil.rmtree(crash, ignore_errors=True)
    cmd = ["go", "test", "-tags", "verif"] + modflag + ["-run", "^$", "-fuzz", "FuzzTotal", "-fuzztime", "%ds" % seconds, "-parallel", "12", "."]
    try:
        p = subprocess.run(cmd, cwd=hdir, env=env, stdout=subprocess.PIPE, stderr=subprocess.STDOUT, text=True, timeout=seconds + 900)
    except subprocess.TimeoutExpired:
        raise vlib.Infra("go test -fuzz did not finish")
    tail = [l for l in p.stdout.splitlines() if l.startswith("fuzz: elapsed")][-1:] or [""]
    stopped = p.returncode != 0
    if stopped and "Failing input written to" not in p.stdout and "--- FAIL" not in p.stdout:
        shutil.rmtree(crash, ignore_errors=True)
        raise vlib.Infra("go test -fuzz failed without a failing input:\n" + p.stdout[-3000:])
    cache = subprocess.run(["go", "env", "GOCACHE"], env=env, stdout=subprocess.PIPE, text=True).stdout.strip()
    dirs = [os.path.join(cache, "fuzz", "verif", "harness", "FuzzTotal"), os.path.join(crash, "fuzz", "FuzzTotal")]
    jp, ep = run.path("corpus.jobs"), run.path("corpus.ev")
    vlib.write_ndjson(jp, [{"k": "corpus", "dirs": dirs}])
    vlib.run_harness(run, exe, jp, ep)
    evs = vlib.read_ndjson(ep)
    inputs = [i for e in evs for i in e["inputs"]]
    stopped_on = [i for e in evs if e["dir"].startswith(crash) for i in e["inputs"]]
    shutil.rmtree(crash, ignore_errors=True)
    run.extra["fuzz"] = {"seconds": seconds, "last_status": tail[0], "corpus_inputs_replayed": len(inputs), "fuzzer_stopped_on_an_input": stopped,
                         "stopped_on": [bytes(b % 256 for b in i).decode("latin-1") for i in stopped_on][:3]}
    if stopped and not stopped_on:
        raise vlib.Infra("the fuzzer stopped on an input that could not be read back:\n" + p.stdout[-2000:])
    run.fuzz_stopped = stopped
    return inputs

def check(run):
    quick = run.tier == "quick"
    exe = vlib.build_harness(run)
    cli = vlib.build_cli(run)
    rnd = random.Random(run.seed)
    L = 3 if quick else 4
    strs, longs = strings(run, L)
    U = vlib.universe(run)
    texts = [t for e in U for t, _ in U[e]]
    import regexgen
    for e in U: texts += regexgen.sample(vlib.REPO, e, rnd, 60 if quick else 400) + regexgen.sample(vlib.REPO, e, rnd, 30 if quick else 200, files=("range.go",))
    # range texts of the C02 catalogue and the C05 shorthand table (every AND/OR syntax, keyword and bracket form),
    # as they are and as seeds of the garbage mutations
    import check_c02, check_c05
    accv = vlib.accepted(run, exe, {e: U[e] for e in check_c02.ECOS})
    rtexts = [j["text"] for j in check_c02.gen_round(run, exe, accv, rnd, 0, 0)] + [v["text"] for v in check_c05.vectors(run)]
    rtexts = rnd.sample(rtexts, min(len(rtexts), 2500 if quick else 12000))
    texts += rtexts
    garb = garbage(rnd, texts, 1500 if quick else 20000) + [list(t.encode()) for t in rtexts]
    # digit runs of valid texts replaced by numbers around 2^63 / 2^64 and by 20-digit runs (conversions in rare branches)
    import re
    for t in rnd.sample(texts, min(len(texts), 400 if quick else 4000)):
        runs = list(re.finditer(r"[0-9]+", t))
        if runs:
            m = rnd.choice(runs)
            for b in ("9223372036854775807", "9223372036854775808", "18446744073709551616", "99999999999999999999", "4294967296"):
                garb.append(list((t[:m.start()] + b + t[m.end():]).encode()))
    if quick:
        longs = [l for l in longs if l["n"] in (1000, 100000)]
        longs = rnd.sample(longs, 120)
    fuzzed = [] if quick else fuzz_corpus(run, exe, rnd, texts, 150)
    jobs = [{"k": "total", "tag": "fuzz", "inputs": fuzzed[i:i + 400]} for i in range(0, len(fuzzed), 400)]
    jobs += [{"k": "total", "tag": "sigma", "inputs": strs[i:i + 400]} for i in range(0, len(strs), 400)]
    jobs += [{"k": "total", "tag": "garbage", "inputs": garb[i:i + 400]} for i in range(0, len(garb), 400)]
    jobs += [{"k": "total", "tag": "long", "longs": longs[i:i + 6]} for i in range(0, len(longs), 6)]
    # small scope for the range grammars: every sequence of <= 2 (quick; plus a seeded sample of the 3-token ones) / <= 3
    # (thorough) range tokens of an ecosystem (Tokens.tla, TMode = "r"), fed to that ecosystem's own parser and observers
    rt = vlib.range_token_texts(run, sorted(U), 3)
    nrt = 0
    for e in sorted(rt):
        ts = rt[e]
        if quick:
            import re
            short = [t for t in ts if len(t) <= 8]
            opnum = [t for t in ts if re.match(r"^[<>=!~^]+(?:1\.0\.0|1|0|9223372036854775807)[^0-9]", t)]   # operator, number, one more token
            ts = list(dict.fromkeys(short[:1500] + opnum + rnd.sample(ts, min(len(ts), 400))))
        nrt += len(ts)
        for i in range(0, len(ts), 500):
            jobs.append({"k": "total", "tag": "rtokens", "only": [e], "inputs": [list(t.encode()) for t in ts[i:i + 500]]})
    run.extra["range_token_inputs"] = nrt
    # blank-separated fields: every sequence of three fields (and a seeded sample of four) over the ecosystem's operator
    # tokens and two versions - operators next to operators, operators at the end, versions without operators
    import itertools
    nfs = 0
    for e in sorted(rt):
        ops = sorted({t for t in rt[e] if t and len(t) <= 3 and not any(c.isalnum() or c.isspace() for c in t)})[:12]
        fields = ops + ["1", "1.0.0"]
        seqs = [" ".join(s) for s in itertools.product(fields, repeat=3)]
        four = [" ".join(s) for s in itertools.product(fields, repeat=4)]
        seqs += rnd.sample(four, min(len(four), 300 if quick else 3000))
        nfs += len(seqs)
        for i in range(0, len(seqs), 500):
            jobs.append({"k": "total", "tag": "fields", "only": [e], "inputs": [list(t.encode()) for t in seqs[i:i + 500]]})
    run.extra["blank_separated_field_inputs"] = nfs
    # CLI: every string of length <= 2 (no NUL: it cannot be passed in an argument vector) in every argument position
    short = [s for s in strs if len(s) <= 2 and 0 not in s] + [g for g in garb[:200] if 0 not in g and len(g) < 2000]
    cliruns = []
    for s in short:
        for name, cmd in (("npm", "compare"), ("debian", "contains"), ("maven", "sort"), ("vers", "contains")):
            good = check_c15.codes("1.0.0")
            goodr = check_c15.codes(">=1.0.0" if name != "vers" else "vers:npm/>=1.0.0")
            first = goodr if cmd == "contains" else good
            for argv in ([name, cmd, s, good], [name, cmd, first, s], [s, cmd, first, good], [name, s, first, good]):
                cliruns.append({"tag": "cli", "argv": [check_c15.codes(a) if isinstance(a, str) else a for a in argv]})
    if quick:
        cliruns = rnd.sample(cliruns, min(len(cliruns), 2500))
    # long arguments (the diagnostics they provoke are long too): a valid or invalid head followed by 300 / 1000 / 20000
    # repetitions of a control character, a separator, a letter or a digit, in every argument position
    for unit in (27, 7, 10, 127, 46, 97, 49, 45, 32):
        for n in ((300, 1000) if quick else (300, 1000, 20000)):
            for head in ("1.0.0", "", ">="):
                s = check_c15.codes(head) + [unit] * n
                for name, cmd in (("npm", "compare"), ("debian", "contains"), ("maven", "sort"), ("vers", "contains")):
                    good = check_c15.codes("1.0.0")
                    first = check_c15.codes(">=1.0.0" if name != "vers" else "vers:npm/>=1.0.0") if cmd == "contains" else good
                    for argv in ([name, cmd, s, good], [name, cmd, first, s]):
                        cliruns.append({"tag": "cli-long", "argv": [check_c15.codes(a) if isinstance(a, str) else a for a in argv]})
    rnd.shuffle(jobs)
    nsh = 12
    shards = [jobs[i::nsh] for i in range(nsh)]
    def one(k_sh):
        k, sh = k_sh
        jp, ep = run.path("jobs%d.ndjson" % k), run.path("ev%d.ndjson" % k)
        cl = cliruns[k::nsh]
        vlib.write_ndjson(jp, sh + [{"k": "cli", "runs": cl[i:i + 200]} for i in range(0, len(cl), 200)])
        vlib.run_harness(run, exe, jp, ep, env={"VERIF_CLI": cli}, timeout=3000)
        mm, info = vlib.judge(run, ep, "C06", name="judge%d" % k, heap="4g")
        evs = vlib.read_ndjson(ep)
        acc = sum(1 for e in evs if e["k"] == "total" for c in list(e["v"].values()) + list(e["r"].values()) if c == 0)
        calls = sum(len(e["v"]) + len(e["r"]) + len(e["versr"]) + len(e["versp"]) + 1 for e in evs if e["k"] == "total") + sum(1 for e in evs if e["k"] == "cli")
        slow = max([(e["maxms"], e["n"], e["slow"]) for e in evs if e["k"] == "total"] or [(0, 0, "")])
        smp = [e for e in evs if e["k"] == "total" and e["tag"] == "long"][:1] + [e for e in evs if e["k"] == "total" and e["tag"] == "sigma" and len(e["bytes"]) == L][:1]
        return mm, len(evs), calls, acc, slow, smp
    with cf.ThreadPoolExecutor(max_workers=12) as ex:
        results = list(ex.map(one, list(enumerate(shards))))
    judged = 0; calls = 0; accepted = 0; slowest = (0, 0, "")
    for mm, n, c, a, slow, smp in results:
        judged += n; calls += c; accepted += a; slowest = max(slowest, slow)
        for e in smp:
            if len(run.samples) < 6: run.samples.append({"tag": e["tag"], "input_head": e["show"], "n": e["n"], "npm": e["v"].get("npm"), "maxms": e["maxms"], "slowest_call": e["slow"]})
        for m in mm:
            if m.get("known"):
                run.known[m["known"]] = run.known.get(m["known"], 0) + 1
            else:
                run.violations.append(m)
    run.extra.update({"alphabet": SIGMA, "max_length_exhaustive": L, "strings": len(strs), "garbage_inputs": len(garb), "long_inputs": len(longs),
                      "entry_point_calls": calls, "accepted_values_observed": accepted, "cli_executions": len(cliruns),
                      "slowest_call_ms_n_name": list(slowest)})
    if getattr(run, "fuzz_stopped", False) and not run.violations:
        raise vlib.Infra("the fuzzer stopped on an input, but its replay through the recorded harness was judged conforming (unreproduced)")
    run.assumptions = ["'at most quadratic' is checked as a budget (5 s + 2 ms per (n/1000)^2; a call over 1 s is measured three times and the minimum counts), not proved: it detects hangs and cubic or worse blow-ups",
                       "memory-level faults other than Go panics are not observable; a NUL byte cannot be passed in a CLI argument vector (OS limit)",
                       "beyond length %d the inputs are seeded structured garbage, long runs and (thorough tier) the corpus of Go's coverage-guided fuzzer run for 150 s from valid texts; none of these is exhaustive" % L]
    return vlib.finish(run, rule="all byte strings of length <= %d over a 20-byte syntax alphabet x (20 NewVersion + 20 NewVersionRange + vers.Contains as range/probe/mixed for 11 schemes + whole string) + seeded garbage + long-run families x lengths up to 100k; CLI: every string of length <= 2 in every argument position" % L,
                       exhaustive=True, judged=judged, min_judged=1000)

def replay(d):
    print(json.dumps(d, indent=1)); return 0
