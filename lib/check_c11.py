"""C11 — RPM orders as rpmvercmp (reference: spec/Rpm.tla, audited by rpm's own test table)."""
import refcheck, re

def seeded(U, rnd, quick):
    alphabet = "0019aZb._+~^"
    jobs = []
    for r in range(3 if quick else 30):
        texts = set()
        while len(texts) < 120:
            n = rnd.randint(1, 7)
            s = "".join(rnd.choice(alphabet) for _ in range(n))
            if not re.search(r"[0-9A-Za-z]", s): continue
            if rnd.random() < 0.3: s = rnd.choice(["0:", "1:", "2:"]) + s
            if rnd.random() < 0.3: s += "-" + "".join(rnd.choice("019a._+~^") for _ in range(rnd.randint(1, 3)))
            if rnd.random() < 0.15: s = re.sub(r"\d", lambda m: m.group(0) * rnd.choice([1, 1, 21]), s, count=1)
            texts.add(s)
        jobs.append({"k": "matrix", "eco": "rpm", "tag": "seeded", "texts": sorted(texts), "part": []})
    # epochs compare numerically at every magnitude the parser takes (a 32-bit field would fold 2^32 onto 0)
    import random
    ernd = random.Random("epochs|%d|%s" % (len(jobs), jobs[0]["texts"][0]))       # own stream
    EPOCHS = ["0", "00", "1", "01", "2", "9", "10", "65536", "2147483647", "2147483648", "4294967295", "4294967296", "4294967297",
              "4294967298", "8589934592", "9223372036854775806", "9223372036854775807"]
    for r in range(1 if quick else 6):
        vs = ["1.0", "1.0-1", "2", "1.0~rc1"] if r == 0 else ernd.sample(sorted(jobs[ernd.randrange(len(jobs))]["texts"]), 4)
        vs = [v.split(":", 1)[-1] for v in vs]
        texts = set(vs) | {e + ":" + v for e in EPOCHS for v in vs}
        jobs.append({"k": "matrix", "eco": "rpm", "tag": "seeded-epochs", "texts": sorted(texts), "part": []})
    return jobs

def check(run):
    import vlib
    # design level: rpmvercmp's cursor machine terminates and agrees with the recursive operator on every pair
    L = 2 if run.tier == "quick" else 3
    cfg = vlib.cfg_consts(RAlphabet={48, 49, 97, 66, 46, 95, 126, 94}, RMaxLen=L) + \
        "SPECIFICATION RMSpec\nINVARIANT RMachineAgrees\nPROPERTY RTerminates\nCHECK_DEADLOCK FALSE\n"
    vlib.tlc(run, "MC_Rpm", cfg, workers=8, timeout=2400, heap="8g", coverage=True)
    run.extra["rpm_machine_max_string_length"] = L
    return refcheck.run_ref(run, "C11", ["rpm"], (1050, 4000), seeded_fn=seeded,
        rule="pairs of in-scope members within blocks of <=350 members of the TLC-generated universe + seeded character-level strings; each pair judged by Rpm.tla (rpmvercmp)",
        assumptions=["Rpm.tla transcribes rpmvercmp.c; audited only by rpm's published rpmvercmp.at table (ASSUMEs evaluated on every run); no executable rpm on this image",
                     "a missing release is compared as the empty string; releases for which that differs from rpm's 'missing is older' rule are out of scope"])
