----------------------------- MODULE Shorthand -----------------------------
(* The shorthand table and its generator automaton; semantics in ShorthandSem.tla. *)
EXTENDS ShorthandSem

-----------------------------------------------------------------------------
(* rendering *)
N(n) == ToString(n)
\* an epoch is folded into the first component (epoch 1 = +1000): the tuple order is then still the version
\* order; only pypi rows use it and only pypi renders it ("1!2.0")
EP(p) == IF p[1] >= 1000 THEN "1!" ELSE ""
M1(p) == IF p[1] >= 1000 THEN p[1] - 1000 ELSE p[1]
T3(p) == EP(p) \o N(M1(p)) \o "." \o N(p[2]) \o "." \o N(p[3])
T2(p) == EP(p) \o N(M1(p)) \o "." \o N(p[2])
T1(p) == EP(p) \o N(M1(p))
TA(p, ar) == IF ar = 1 THEN T1(p) ELSE IF ar = 2 THEN T2(p) ELSE T3(p)
\* how an ecosystem spells release levels 1, 2 (pre-releases) and 4 (above the final release, below the next patch).
\* Pre-releases come in two families: lower-case "alpha" and upper-case "RC" (SemVer identifiers are case-sensitive
\* and ASCII-ordered, so RC.1 < RC.2 < final just as alpha.1 < alpha.2 < final).
PreText(e, r, fam) ==
  CASE e \in {"npm", "cargo", "hex", "conan", "nuget"} ->
         IF fam = "RC" THEN (IF r = 1 THEN "-RC.1" ELSE "-RC.2") ELSE (IF r = 1 THEN "-alpha.1" ELSE "-alpha.2")
    \* maven: the lower-case qualifier and the upper-case milestone alias (M1 < M2 < the release)
    [] e = "maven" -> IF fam = "M" THEN (IF r = 1 THEN "-M1" ELSE "-M2") ELSE (IF r = 1 THEN "-alpha-1" ELSE "-alpha-2")
    \* (".alpha.1" is a RubyGems version too, but go-univers' gem parser rejects a number segment after a letter segment)
    [] e = "gem"   -> IF r = 1 THEN ".alpha1" ELSE ".alpha2"
    [] e = "composer" -> IF r = 1 THEN "-alpha1" ELSE "-alpha2"
    [] e = "pypi"  -> IF r = 1 THEN "a1" ELSE "a2"
Fams(e) == IF e \in {"npm", "cargo", "hex"} THEN {"alpha", "RC"} ELSE IF e = "maven" THEN {"alpha", "M"} ELSE {"alpha"}
\* level 4: pypi's post release; for the ecosystems with more than three numeric components a fourth component
\* (X.Y.Z.65536 lies above X.Y.Z and below X.Y.(Z+1); the value sits just beyond 16 bits on purpose)
PostText(e) == IF e = "pypi" THEN ".post1" ELSE ".65536"
VTextF(e, p, fam) == T3(p) \o (IF p[4] \in {1, 2} THEN PreText(e, p[4], fam) ELSE IF p[4] = 4 THEN PostText(e) ELSE "")
VText(e, p) == VTextF(e, p, "alpha")
\* which release levels an ecosystem's probes may have (composer: stable only; pypi: final or post)
ProbeLevels(e) == CASE e = "composer" -> {3, 4} [] e = "pypi" -> {3, 4} [] e \in {"nuget", "maven", "gem", "conan"} -> {1, 2, 3, 4} [] OTHER -> {1, 2, 3}

-----------------------------------------------------------------------------
(* bases *)
CONSTANTS XS, ZS       \* component values of the bases: {0,1,2,9} / {0,3,9} (quick), wider in the thorough tier
B3 == {V(x, y, z, 3) : x \in XS, y \in XS, z \in ZS}
B2 == {V(x, y, 0, 3) : x \in XS, y \in XS}
B1 == {V(x, 0, 0, 3) : x \in XS}
E3 == {V(1000 + x, y, z, 3) : x \in {0, 2}, y \in {0, 2}, z \in {0, 3}}
E2 == {V(1000 + x, y, 0, 3) : x \in {0, 2}, y \in {0, 2}}
E1 == {V(1000 + x, 0, 0, 3) : x \in {0, 2}}
Bases(ar) == IF ar = 1 THEN B1 ELSE IF ar = 2 THEN B2 ELSE B3

\* caret upper bound: bump the first non-zero of the given components, or the last given one
CaretHi(b, ar, r) ==
  IF b[1] > 0 \/ ar = 1 THEN V(b[1] + 1, 0, 0, r)
  ELSE IF b[2] > 0 \/ ar = 2 THEN V(0, b[2] + 1, 0, r)
  ELSE V(0, 0, b[3] + 1, r)
\* tilde upper bound: minor bump when a minor is given, else major bump
TildeHi(b, ar, r) == IF ar = 1 THEN V(b[1] + 1, 0, 0, r) ELSE V(b[1], b[2] + 1, 0, r)
\* pessimistic / compatible release: drop the last given component, bump the new last one
PessHi(b, ar, r) == IF ar <= 2 THEN V(b[1] + 1, 0, 0, r) ELSE V(b[1], b[2] + 1, 0, r)
\* prefix match X.* / X.Y.*
PrefLo(b, ar, r) == IF ar = 1 THEN V(b[1], 0, 0, r) ELSE V(b[1], b[2], 0, r)
PrefHi(b, ar, r) == IF ar = 1 THEN V(b[1] + 1, 0, 0, r) ELSE V(b[1], b[2] + 1, 0, r)

VecF(e, c, text, ivs, neg, probeBelowPre, probeHiPre, fam) ==
  [eco |-> e, construct |-> c, text |-> text, ivs |-> ivs, neg |-> neg, belowPre |-> probeBelowPre, hiPre |-> probeHiPre, fam |-> fam]
Vec(e, c, text, ivs, neg, probeBelowPre, probeHiPre) == VecF(e, c, text, ivs, neg, probeBelowPre, probeHiPre, "alpha")

\* a pre-release base: level 2 of the same numbers ("X.Y.Z-alpha.2")
PreBase(b) == V(b[1], b[2], b[3], 2)

-----------------------------------------------------------------------------
(* the table *)
Npm ==
  LET e == "npm" IN
     {Vec(e, "caret" \o N(ar), "^" \o TA(b, ar), <<Iv(b, TRUE, CaretHi(b, ar, 0), FALSE)>>, FALSE, ar = 3, TRUE) : ar \in {3}, b \in B3}
  \cup {Vec(e, "caret2", "^" \o T2(b), <<Iv(b, TRUE, CaretHi(b, 2, 0), FALSE)>>, FALSE, FALSE, TRUE) : b \in B2}
  \cup {Vec(e, "caret1", "^" \o T1(b), <<Iv(b, TRUE, CaretHi(b, 1, 0), FALSE)>>, FALSE, FALSE, TRUE) : b \in B1}
  \cup {VecF(e, "caret-pre", "^" \o VTextF(e, PreBase(b), fam), <<Iv(PreBase(b), TRUE, CaretHi(b, 3, 0), FALSE)>>, FALSE, TRUE, TRUE, fam) : b \in B3, fam \in Fams(e)}
  \cup {Vec(e, "tilde3", "~" \o T3(b), <<Iv(b, TRUE, TildeHi(b, 3, 0), FALSE)>>, FALSE, TRUE, TRUE) : b \in B3}
  \cup {Vec(e, "tilde2", "~" \o T2(b), <<Iv(b, TRUE, TildeHi(b, 2, 0), FALSE)>>, FALSE, FALSE, TRUE) : b \in B2}
  \cup {Vec(e, "tilde1", "~" \o T1(b), <<Iv(b, TRUE, TildeHi(b, 1, 0), FALSE)>>, FALSE, FALSE, TRUE) : b \in B1}
  \cup {VecF(e, "tilde-pre", "~" \o VTextF(e, PreBase(b), fam), <<Iv(PreBase(b), TRUE, TildeHi(b, 3, 0), FALSE)>>, FALSE, TRUE, TRUE, fam) : b \in B3, fam \in Fams(e)}
  \cup {Vec(e, "xrange1", T1(b) \o w, <<Iv(PrefLo(b, 1, 3), TRUE, PrefHi(b, 1, 0), FALSE)>>, FALSE, FALSE, TRUE) : b \in B1, w \in {".x", ".X"}}
  \cup {Vec(e, "xrange2", T2(b) \o w, <<Iv(PrefLo(b, 2, 3), TRUE, PrefHi(b, 2, 0), FALSE)>>, FALSE, FALSE, TRUE) : b \in B2, w \in {".x", ".X"}}
  \cup {Vec(e, "hyphen", T3(b) \o " - " \o T3(V(b[1] + 1, b[2], 5, 3)), <<Iv(b, TRUE, V(b[1] + 1, b[2], 5, 3), TRUE)>>, FALSE, TRUE, FALSE) : b \in B3}
  \cup {Vec(e, "hyphen-partial2", T3(b) \o " - " \o T2(V(b[1] + 1, 4, 0, 3)), <<Iv(b, TRUE, V(b[1] + 1, 5, 0, 0), FALSE)>>, FALSE, TRUE, TRUE) : b \in B3}
  \cup {Vec(e, "hyphen-partial1", T3(b) \o " - " \o T1(V(b[1] + 1, 0, 0, 3)), <<Iv(b, TRUE, V(b[1] + 2, 0, 0, 0), FALSE)>>, FALSE, TRUE, TRUE) : b \in B3}
  \cup {Vec(e, "star", "*", <<Iv(BOT, TRUE, TOP, TRUE)>>, FALSE, FALSE, FALSE)}

Cargo ==
  LET e == "cargo" IN
     {Vec(e, "caret3", "^" \o T3(b), <<Iv(b, TRUE, CaretHi(b, 3, 3), FALSE)>>, FALSE, TRUE, FALSE) : b \in B3}
  \cup {Vec(e, "caret2", "^" \o T2(b), <<Iv(b, TRUE, CaretHi(b, 2, 3), FALSE)>>, FALSE, FALSE, FALSE) : b \in B2}
  \cup {Vec(e, "caret1", "^" \o T1(b), <<Iv(b, TRUE, CaretHi(b, 1, 3), FALSE)>>, FALSE, FALSE, FALSE) : b \in B1}
  \cup {VecF(e, "caret-pre", "^" \o VTextF(e, PreBase(b), fam), <<Iv(PreBase(b), TRUE, CaretHi(b, 3, 3), FALSE)>>, FALSE, TRUE, FALSE, fam) : b \in B3, fam \in Fams(e)}
  \cup {Vec(e, "tilde3", "~" \o T3(b), <<Iv(b, TRUE, TildeHi(b, 3, 3), FALSE)>>, FALSE, TRUE, FALSE) : b \in B3}
  \cup {Vec(e, "tilde2", "~" \o T2(b), <<Iv(b, TRUE, TildeHi(b, 2, 3), FALSE)>>, FALSE, FALSE, FALSE) : b \in B2}
  \cup {Vec(e, "tilde1", "~" \o T1(b), <<Iv(b, TRUE, TildeHi(b, 1, 3), FALSE)>>, FALSE, FALSE, FALSE) : b \in B1}
  \cup {Vec(e, "wild1", T1(b) \o ".*", <<Iv(PrefLo(b, 1, 3), TRUE, PrefHi(b, 1, 3), FALSE)>>, FALSE, FALSE, FALSE) : b \in B1}
  \cup {Vec(e, "wild2", T2(b) \o ".*", <<Iv(PrefLo(b, 2, 3), TRUE, PrefHi(b, 2, 3), FALSE)>>, FALSE, FALSE, FALSE) : b \in B2}
  \cup {Vec(e, "star", "*", <<Iv(BOT, TRUE, TOP, TRUE)>>, FALSE, FALSE, FALSE)}

Composer ==
  LET e == "composer" IN
     {Vec(e, "caret3", "^" \o T3(b), <<Iv(b, TRUE, CaretHi(b, 3, 3), FALSE)>>, FALSE, FALSE, FALSE) : b \in B3}
  \cup {Vec(e, "caret2", "^" \o T2(b), <<Iv(b, TRUE, CaretHi(b, 2, 3), FALSE)>>, FALSE, FALSE, FALSE) : b \in B2 \ {V(0, 0, 0, 3)}}
  \cup {Vec(e, "caret1", "^" \o T1(b), <<Iv(b, TRUE, CaretHi(b, 1, 3), FALSE)>>, FALSE, FALSE, FALSE) : b \in B1 \ {V(0, 0, 0, 3)}}
  \cup {Vec(e, "tilde3", "~" \o T3(b), <<Iv(b, TRUE, V(b[1], b[2] + 1, 0, 3), FALSE)>>, FALSE, FALSE, FALSE) : b \in B3}
  \cup {Vec(e, "tilde2", "~" \o T2(b), <<Iv(b, TRUE, V(b[1] + 1, 0, 0, 3), FALSE)>>, FALSE, FALSE, FALSE) : b \in B2}
  \cup {Vec(e, "wild1", T1(b) \o ".*", <<Iv(PrefLo(b, 1, 3), TRUE, PrefHi(b, 1, 3), FALSE)>>, FALSE, FALSE, FALSE) : b \in B1}
  \cup {Vec(e, "wild2", T2(b) \o ".*", <<Iv(PrefLo(b, 2, 3), TRUE, PrefHi(b, 2, 3), FALSE)>>, FALSE, FALSE, FALSE) : b \in B2}
  \cup {Vec(e, "hyphen", T3(b) \o " - " \o T3(V(b[1] + 1, b[2], 5, 3)), <<Iv(b, TRUE, V(b[1] + 1, b[2], 5, 3), TRUE)>>, FALSE, FALSE, FALSE) : b \in B3}
  \cup {Vec(e, "hyphen-partial2", T2(b) \o " - " \o T2(V(b[1] + 1, 4, 0, 3)), <<Iv(b, TRUE, V(b[1] + 1, 5, 0, 3), FALSE)>>, FALSE, FALSE, FALSE) : b \in B2}
  \cup {Vec(e, "star", "*", <<Iv(BOT, TRUE, TOP, TRUE)>>, FALSE, FALSE, FALSE)}

Conan ==
  LET e == "conan" IN
     {Vec(e, "caret3", "^" \o T3(b), <<Iv(b, TRUE, CaretHi(b, 3, 3), FALSE)>>, FALSE, TRUE, FALSE) : b \in B3 \ {V(0, 0, z, 3) : z \in ZS}}
  \cup {Vec(e, "caret2", "^" \o T2(b), <<Iv(b, TRUE, CaretHi(b, 2, 3), FALSE)>>, FALSE, FALSE, FALSE) : b \in B2 \ {V(0, 0, 0, 3)}}
  \cup {Vec(e, "caret1", "^" \o T1(b), <<Iv(b, TRUE, CaretHi(b, 1, 3), FALSE)>>, FALSE, FALSE, FALSE) : b \in B1 \ {V(0, 0, 0, 3)}}
  \cup {Vec(e, "tilde3", "~" \o T3(b), <<Iv(b, TRUE, V(b[1], b[2] + 1, 0, 3), FALSE)>>, FALSE, TRUE, FALSE) : b \in B3}
  \cup {Vec(e, "tilde2", "~" \o T2(b), <<Iv(b, TRUE, V(b[1], b[2] + 1, 0, 3), FALSE)>>, FALSE, FALSE, FALSE) : b \in B2}
  \cup {Vec(e, "tilde1", "~" \o T1(b), <<Iv(b, TRUE, V(b[1] + 1, 0, 0, 3), FALSE)>>, FALSE, FALSE, FALSE) : b \in B1}

Gem ==
  LET e == "gem" IN
     \* RubyGems: "~> 1.2.3" is satisfied iff v >= 1.2.3 and v.release < 1.3 - a pre-release of the upper bound is outside,
     \* so the upper bound is the level-0 point below every pre-release of the bump (like npm's "<2.0.0-0")
     {Vec(e, "pess3", "~>" \o sp \o T3(b), <<Iv(b, TRUE, PessHi(b, 3, 0), FALSE)>>, FALSE, TRUE, TRUE) : b \in B3, sp \in {"", " "}}
  \cup {Vec(e, "pess2", "~>" \o sp \o T2(b), <<Iv(b, TRUE, PessHi(b, 2, 0), FALSE)>>, FALSE, FALSE, TRUE) : b \in B2, sp \in {"", " "}}
  \cup {Vec(e, "pess1", "~>" \o T1(b), <<Iv(b, TRUE, V(b[1] + 1, 0, 0, 0), FALSE)>>, FALSE, FALSE, TRUE) : b \in B1}

Hex ==
  LET e == "hex" IN
     {Vec(e, "pess3", "~>" \o sp \o T3(b), <<Iv(b, TRUE, PessHi(b, 3, 3), FALSE)>>, FALSE, TRUE, FALSE) : b \in B3, sp \in {"", " "}}
  \cup {Vec(e, "pess2", "~>" \o sp \o T2(b), <<Iv(b, TRUE, PessHi(b, 2, 3), FALSE)>>, FALSE, FALSE, FALSE) : b \in B2, sp \in {"", " "}}
  \cup {VecF(e, "pess-pre", "~>" \o VTextF(e, PreBase(b), fam), <<Iv(PreBase(b), TRUE, PessHi(b, 3, 3), FALSE)>>, FALSE, TRUE, FALSE, fam) : b \in B3, fam \in Fams(e)}

Pypi ==
  LET e == "pypi" IN
     {Vec(e, "compat3", "~=" \o T3(b), <<Iv(b, TRUE, PessHi(b, 3, 3), FALSE)>>, FALSE, FALSE, FALSE) : b \in B3}
  \cup {Vec(e, "compat2", "~=" \o T2(b), <<Iv(b, TRUE, PessHi(b, 2, 3), FALSE)>>, FALSE, FALSE, FALSE) : b \in B2}
  \cup {Vec(e, "prefix1", "==" \o T1(b) \o ".*", <<Iv(PrefLo(b, 1, 3), TRUE, PrefHi(b, 1, 3), FALSE)>>, FALSE, FALSE, FALSE) : b \in B1}
  \cup {Vec(e, "prefix2", "==" \o T2(b) \o ".*", <<Iv(PrefLo(b, 2, 3), TRUE, PrefHi(b, 2, 3), FALSE)>>, FALSE, FALSE, FALSE) : b \in B2}
  \cup {Vec(e, "notprefix1", "!=" \o T1(b) \o ".*", <<Iv(PrefLo(b, 1, 3), TRUE, PrefHi(b, 1, 3), FALSE)>>, TRUE, FALSE, FALSE) : b \in B1}
  \cup {Vec(e, "notprefix2", "!=" \o T2(b) \o ".*", <<Iv(PrefLo(b, 2, 3), TRUE, PrefHi(b, 2, 3), FALSE)>>, TRUE, FALSE, FALSE) : b \in B2}
  \* compatible release of a post-release base (PEP 440's own example ~=2.2.post3 is >=2.2.post3, ==2.*): the suffix is
  \* not a release segment, so the bump is still taken from the release numbers
  \cup {Vec(e, "compat2-post", "~=" \o T2(b) \o ".post1", <<Iv(V(b[1], b[2], 0, 4), TRUE, PessHi(b, 2, 3), FALSE)>>, FALSE, FALSE, FALSE) : b \in B2}
  \cup {Vec(e, "compat3-post", "~=" \o T3(b) \o ".post1", <<Iv(V(b[1], b[2], b[3], 4), TRUE, PessHi(b, 3, 3), FALSE)>>, FALSE, FALSE, FALSE) : b \in B3}
  \* the same constructs with an explicit epoch (epoch x wildcard, epoch x compatible release)
  \cup {Vec(e, "epoch-compat3", "~=" \o T3(b), <<Iv(b, TRUE, PessHi(b, 3, 3), FALSE)>>, FALSE, FALSE, FALSE) : b \in E3}
  \cup {Vec(e, "epoch-compat2", "~=" \o T2(b), <<Iv(b, TRUE, PessHi(b, 2, 3), FALSE)>>, FALSE, FALSE, FALSE) : b \in E2}
  \cup {Vec(e, "epoch-prefix1", "==" \o T1(b) \o ".*", <<Iv(PrefLo(b, 1, 3), TRUE, PrefHi(b, 1, 3), FALSE)>>, FALSE, FALSE, FALSE) : b \in E1}
  \cup {Vec(e, "epoch-prefix2", "==" \o T2(b) \o ".*", <<Iv(PrefLo(b, 2, 3), TRUE, PrefHi(b, 2, 3), FALSE)>>, FALSE, FALSE, FALSE) : b \in E2}
  \cup {Vec(e, "epoch-notprefix2", "!=" \o T2(b) \o ".*", <<Iv(PrefLo(b, 2, 3), TRUE, PrefHi(b, 2, 3), FALSE)>>, TRUE, FALSE, FALSE) : b \in E2}

\* bracket intervals (nuget, maven): all eight open/closed/unbounded forms, the exact form, maven unions
BracketsF(e, fam) ==
  LET up(b) == V(b[1] + 1, b[2], 5, 3) IN
     {VecF(e, "closed",      "[" \o T3(b) \o "," \o T3(up(b)) \o "]", <<Iv(b, TRUE, up(b), TRUE)>>, FALSE, TRUE, FALSE, fam) : b \in B3}
  \cup {VecF(e, "open",      "(" \o T3(b) \o "," \o T3(up(b)) \o ")", <<Iv(b, FALSE, up(b), FALSE)>>, FALSE, TRUE, FALSE, fam) : b \in B3}
  \cup {VecF(e, "half-open", "[" \o T3(b) \o "," \o T3(up(b)) \o ")", <<Iv(b, TRUE, up(b), FALSE)>>, FALSE, TRUE, FALSE, fam) : b \in B3}
  \cup {VecF(e, "open-half", "(" \o T3(b) \o "," \o T3(up(b)) \o "]", <<Iv(b, FALSE, up(b), TRUE)>>, FALSE, TRUE, FALSE, fam) : b \in B3}
  \cup {VecF(e, "min-incl",  "[" \o T3(b) \o ",)", <<Iv(b, TRUE, TOP, TRUE)>>, FALSE, TRUE, FALSE, fam) : b \in B3}
  \cup {VecF(e, "min-excl",  "(" \o T3(b) \o ",)", <<Iv(b, FALSE, TOP, TRUE)>>, FALSE, TRUE, FALSE, fam) : b \in B3}
  \cup {VecF(e, "max-incl",  "(," \o T3(b) \o "]", <<Iv(BOT, TRUE, b, TRUE)>>, FALSE, TRUE, FALSE, fam) : b \in B3}
  \cup {VecF(e, "max-excl",  "(," \o T3(b) \o ")", <<Iv(BOT, TRUE, b, FALSE)>>, FALSE, TRUE, FALSE, fam) : b \in B3}
  \cup {VecF(e, "exact",     "[" \o T3(b) \o "]", <<Iv(b, TRUE, b, TRUE)>>, FALSE, TRUE, FALSE, fam) : b \in B3}
  \cup {VecF(e, "closed2",   "[" \o T2(b) \o "," \o T2(V(b[1] + 1, b[2], 0, 3)) \o ")", <<Iv(b, TRUE, V(b[1] + 1, b[2], 0, 3), FALSE)>>, FALSE, FALSE, FALSE, fam) : b \in B2}
Brackets(e) == UNION {BracketsF(e, fam) : fam \in Fams(e)}
Nuget == Brackets("nuget")
\* maven: a pre-release as upper bound, written with two components while the probes are written with three (1.0-alpha-2
\* and 1.0.0-alpha-2 are the same version: trailing zeros before a qualifier do not count)
MavenPreBound ==
  {VecF("maven", "max-incl-pre2", "(," \o T2(b) \o PreText("maven", 2, "alpha") \o "]", <<Iv(BOT, TRUE, V(b[1], b[2], 0, 2), TRUE)>>, FALSE, FALSE, TRUE, "alpha") : b \in B2}
  \cup {VecF("maven", "min-incl-pre2", "[" \o T2(b) \o PreText("maven", 2, "alpha") \o ",)", <<Iv(V(b[1], b[2], 0, 2), TRUE, TOP, TRUE)>>, FALSE, TRUE, FALSE, "alpha") : b \in B2}
Maven == Brackets("maven") \cup MavenPreBound
  \cup {Vec("maven", "union", "(," \o T3(b) \o "],[" \o T3(V(b[1] + 1, b[2], 5, 3)) \o ",)",
            <<Iv(BOT, TRUE, b, TRUE), Iv(V(b[1] + 1, b[2], 5, 3), TRUE, TOP, TRUE)>>, FALSE, TRUE, FALSE) : b \in B3}

\* ecosystems whose ranges are documented to admit a pre-release lying strictly inside the interval (go-univers' own
\* documentation for npm: inclusive treatment; RubyGems, Conan with pre-releases resolved, Elixir with allow_pre, Maven
\* and NuGet intervals by plain order); cargo's opt-in rule is not claimed
InteriorPreEcos == {"npm", "gem", "hex", "conan", "nuget", "maven"}
ShortEcos == {"npm", "cargo", "composer", "conan", "gem", "hex", "pypi", "nuget", "maven"}
Table(e) == CASE e = "npm" -> Npm [] e = "cargo" -> Cargo [] e = "composer" -> Composer [] e = "conan" -> Conan
              [] e = "gem" -> Gem [] e = "hex" -> Hex [] e = "pypi" -> Pypi [] e = "nuget" -> Nuget [] e = "maven" -> Maven

-----------------------------------------------------------------------------
(* probes derived from a vector's bounds: the bounds themselves, just below the  *)
(* lower bound, an interior point, the last version before the upper bound, the  *)
(* upper bound, a pre-release of the upper bound (where the documentation writes  *)
(* one), and a point above.                                                       *)
Below(p) == IF p[3] > 0 THEN V(p[1], p[2], p[3] - 1, 3)
            ELSE IF p[2] > 0 THEN V(p[1], p[2] - 1, 99, 3)
            ELSE IF p[1] > 0 THEN V(p[1] - 1, 99, 99, 3) ELSE BOT
Final(p) == V(p[1], p[2], p[3], 3)
Real(p) == p[1] >= 0 /\ p[1] < 1000000
ProbesOf(v) ==
  LET e == v.eco
      bs == UNION {{v.ivs[k].lo, v.ivs[k].hi} : k \in 1..Len(v.ivs)}
      core == UNION {{Final(b), Below(Final(b)), V(b[1], b[2], b[3] + 1, 3), V(b[1], b[2] + 1, 0, 3),
                      V(b[1] + 1, 0, 0, 3), V(b[1], b[2], b[3] + 7, 3)} : b \in {b \in bs : Real(b)}}
      post == IF 4 \in ProbeLevels(e) THEN {V(b[1], b[2], b[3], 4) : b \in {b \in bs : Real(b)}} \cup {V(Below(Final(b))[1], Below(Final(b))[2], Below(Final(b))[3], 4) : b \in {b \in bs : Real(b) /\ Real(Below(Final(b)))}} ELSE {}
      lows == {v.ivs[k].lo : k \in 1..Len(v.ivs)}
      his  == {v.ivs[k].hi : k \in 1..Len(v.ivs)}
      bpre == IF v.belowPre /\ 1 \in ProbeLevels(e)
              THEN {V(b[1], b[2], b[3], 1) : b \in {b \in lows : Real(b)}}
                   \cup {V(b[1], b[2], b[3], 2) : b \in {b \in lows : Real(b) /\ b[4] = 2}}
              ELSE {}
      hpre == IF v.hiPre /\ 1 \in ProbeLevels(e) THEN {V(b[1], b[2], b[3], 1) : b \in {b \in his : Real(b)}} ELSE {}
      \* a pre-release strictly inside the interval: of the patch right above the lower bound
      ipre == IF 1 \in ProbeLevels(e) /\ e \in InteriorPreEcos THEN {V(b[1], b[2], b[3] + 1, 1) : b \in {b \in lows : Real(b)}} ELSE {}
      xep == IF e = "pypi"
             THEN {IF b[1] >= 1000 THEN V(b[1] - 1000, b[2], b[3], 3) ELSE V(b[1] + 1000, b[2], b[3], 3) : b \in {b \in bs : Real(b)}}
             ELSE {} IN
  {p \in core \cup post \cup bpre \cup hpre \cup ipre \cup xep \cup {b \in bs : Real(b) /\ b[4] \in {1, 2}} : Real(p) /\ p[4] \in ProbeLevels(e) \cup {1, 2}}

-----------------------------------------------------------------------------
(* generator automaton: one step picks a table row *)
VARIABLES seco, svec
svars == <<seco, svec>>
SInit(E) == seco \in E /\ svec = <<>>
SNext == svec = <<>> /\ \E v \in Table(seco) : svec' = v /\ seco' = seco
=============================================================================
