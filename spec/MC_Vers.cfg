CONSTANT K = 3
CONSTANT Schemes = {"npm"}
INIT VInit
NEXT VNext
INVARIANT SweepIsDen
INVARIANT SingleIsComparator
INVARIANT Emit
CHECK_DEADLOCK FALSE
