------------------------------ MODULE MC_Vers ------------------------------
EXTENDS Vers, Json
\* one vector per range (emitted when its probe-0 behaviour finishes): the text for every scheme
Emit == (phase = "done" /\ probe = 0) =>
          PrintT(<<"VEC", ToJson([cs |-> Cs(ops), texts |-> [s \in Schemes |-> VersText(s, Cs(ops))]])>>)
=============================================================================
