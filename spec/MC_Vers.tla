------------------------------ MODULE MC_Vers ------------------------------
EXTENDS Vers, VersVariants, Json, SequencesExt
\* one vector per range (emitted when its probe-0 behaviour finishes): the text for every scheme
Emit == (phase = "done" /\ probe = 0) =>
          PrintT(<<"VEC", ToJson([cs |-> Cs(ops), texts |-> [s \in Schemes |-> VersText(s, Cs(ops))]])>>)
\* C16: the same ranges with all their meaning-preserving spellings (emitted instead of Emit by the C16 run)
CTexts(s, cs) == [i \in 1..Len(cs) |-> cs[i].op \o TheChain(s)[cs[i].pos + 1]]
EmitVariants == (phase = "done" /\ probe = 0) =>
          \A s \in Schemes :
            PrintT(<<"VEC", ToJson([scheme |-> s, cs |-> Cs(ops), base |-> VersText(s, Cs(ops)),
                                    variants |-> SetToSeq(Variants(s, CTexts(s, Cs(ops))))])>>)
=============================================================================
