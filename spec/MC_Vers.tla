------------------------------ MODULE MC_Vers ------------------------------
EXTENDS Vers, VersVariants, Json, SequencesExt
\* one vector per range (emitted when its probe-0 behaviour finishes): the text for every scheme
Emit == (phase = "done" /\ probe = 0) =>
          PrintT(<<"VEC", ToJson([cs |-> Cs(ops), texts |-> [s \in Schemes |-> VersText(s, Cs(ops))]])>>)
\* C16: the same ranges with all their meaning-preserving spellings (emitted instead of Emit by the C16 run)
CTexts(s, cs) == [i \in 1..Len(cs) |-> cs[i].op \o TheChain(s)[cs[i].pos + 1]]
\* the star range has spellings too: spaces and empty constraints around the star (a second star is not a spelling of
\* the first: "the star occurs once" is a validation rule, C17); emitted once, from the first single-constraint range
EmitStar == (phase = "pick" /\ probe = 0 /\ Cs(ops) = <<[op |-> ">=", pos |-> 1]>>) =>
          \A s \in Schemes :
            PrintT(<<"VEC", ToJson([scheme |-> s, cs |-> <<>>, base |-> Head5(s) \o "*", variants |-> SetToSeq(StarVariants(s))])>>)
EmitRange == (phase = "done" /\ probe = 0) =>
          \A s \in Schemes :
            PrintT(<<"VEC", ToJson([scheme |-> s, cs |-> Cs(ops), base |-> VersText(s, Cs(ops)),
                                    variants |-> SetToSeq(Variants(s, CTexts(s, Cs(ops))))])>>)
EmitVariants == EmitStar /\ EmitRange
=============================================================================
