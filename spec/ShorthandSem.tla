----------------------------- MODULE ShorthandSem ---------------------------
(***************************************************************************)
(* Shorthand range operators and the intervals their ecosystems document   *)
(* for them (C05).  Abstract versions are 4-tuples <<x, y, z, r>> ordered  *)
(* lexicographically, r being the release level:                           *)
(*   0 = "-0" (the lowest pre-release; only ever a bound)                  *)
(*   1 = first pre-release (alpha.1)   2 = second pre-release (alpha.2)    *)
(*   3 = the final release             4 = a post release (pypi .post1)    *)
(* so that npm's "<2.0.0-0" is the bound <<2,0,0,0>>.  A vector is one     *)
(* range text plus the documented denotation (a set of intervals, possibly *)
(* negated) plus the probes derived from the bounds.  Sources: node-semver *)
(* README (ranges), The Cargo Book (specifying dependencies), Composer     *)
(* "Versions and constraints", Conan 2 version ranges, RubyGems guides     *)
(* (pessimistic operator), Elixir Version docs, PEP 440 (compatible        *)
(* release, prefix matching), NuGet and Maven version range docs.          *)
(***************************************************************************)
EXTENDS Integers, Sequences, FiniteSets, TLC

V(x, y, z, r) == <<x, y, z, r>>
TCmp(a, b) ==
  LET D == {i \in 1..4 : a[i] # b[i]} IN
  IF D = {} THEN 0 ELSE LET i == CHOOSE i \in D : \A j \in D : i <= j IN IF a[i] < b[i] THEN -1 ELSE 1

BOT == V(-1, 0, 0, 0)        \* below every version
TOP == V(1000000, 0, 0, 0)   \* above every version
Iv(lo, loInc, hi, hiInc) == [lo |-> lo, loInc |-> loInc, hi |-> hi, hiInc |-> hiInc]
InIv(p, iv) == /\ (IF iv.loInc THEN TCmp(p, iv.lo) >= 0 ELSE TCmp(p, iv.lo) > 0)
               /\ (IF iv.hiInc THEN TCmp(p, iv.hi) <= 0 ELSE TCmp(p, iv.hi) < 0)
\* denotation: in some interval, the whole thing possibly negated
Member(p, ivs, neg) == (\E k \in 1..Len(ivs) : InIv(p, ivs[k])) # neg

=============================================================================
