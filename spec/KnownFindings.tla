--------------------------- MODULE KnownFindings ---------------------------
(***************************************************************************)
(* Named deviations: what the code is known to do wrong today.  A mismatch *)
(* record mm is KNOWN iff some *open* deviation d (listed in               *)
(* /verif/known-findings.txt and passed in as OpenFindings) has            *)
(* Dev(d, mm) = TRUE, i.e. its structural guard holds for the inputs AND   *)
(* the observed wrong answer is the one the deviation predicts.  Anything  *)
(* else is a violation.  A deviation that is not open matches nothing.     *)
(***************************************************************************)
EXTENDS Chars, Dpkg, Rpm, Alpm, MavenCV, Pep440, ShorthandSem

\* a composer version with a stability marker (any letter after an optional leading "v")
ComposerUnstable(cs) == \E i \in 2..Len(cs) : IsAlpha(cs[i])

\* mm is a mismatch record; the fields used depend on the deviation.
Dev(d, mm) ==
  CASE d = "none" -> FALSE
    \* rpm: compareRPMVersionString is not rpmvercmp (alphabetic segment newer than numeric, '_' and '~'
    \* glued into alphabetic runs, '^' a plain separator, "" older than "0"); pinned by the repository's
    \* own tests (1.2.3-1 < 1.2.3-a).  Known iff the implementation model predicts the observed sign.
    \* alpm: libalpm's vercmp itself is not transitive once a pkgver has a leading, trailing or
    \* repeated separator (1. < 1.0 < 1..a < 1.); the repository's tests pin vercmp's answers on such
    \* strings.  Known iff an irregular member takes part and the observed sign is vercmp's.
    [] d = "KF-alpm-01" -> mm.prop = "C01" /\ mm.eco = "alpm" /\ mm.why = "rank-irregular"
                           /\ mm.model = mm.got
    \* maven: ComparableVersion (3.8.7) itself is not transitive outside the conventional shapes
    \* (1 < 1-1 < 1.0.alpha- < 1: a nested list compares below any number).  Known iff a member
    \* outside the conventional shapes takes part and the observed sign is ComparableVersion's.
    [] d = "KF-maven-01" -> mm.prop = "C01" /\ mm.eco = "maven" /\ mm.why = "rank-irregular"
                           /\ mm.model = mm.got
    \* pypi: Compare ignores the local version label (1.0+abc = 1.0); pinned by the repository's VERS
    \* tests ("!=1.0.0+local1" excludes 1.0.0+local2).  Known iff a local label takes part and the
    \* observed sign is the one PEP 440 gives with local labels ignored.
    [] d = "KF-pypi-01" -> mm.prop = "C09" /\ mm.why = "ref"
                           /\ (PHasLocal(S2C(mm.a)) \/ PHasLocal(S2C(mm.b)))
                           /\ mm.model = mm.got
    \* hex: "~> X.Y" with Y > 0 is expanded to >= X.Y.0 and < X.(Y+1).0 instead of < (X+1).0.0 (Elixir's
    \* Version docs); pinned by the repository's tests (~>1.14 must not contain 1.15.7).  Known iff the
    \* observed membership is that of the narrower interval.
    [] d = "KF-hex-01" -> mm.prop = "C05" /\ mm.eco = "hex" /\ mm.why = "contains" /\ mm.construct = "pess2"
                          /\ LET lo == mm.ivs[1].lo IN
                             lo[2] > 0 /\ mm.got = InIv(mm.p, Iv(lo, TRUE, V(lo[1], lo[2] + 1, 0, 3), FALSE))
    \* composer: a caret range with a stable base excludes every non-stable version by special cases on
    \* the parsed fields and even on the text ("^1.0.0" contains "1.0b1" only), so it is neither convex nor
    \* consistent on equal versions; pinned by the repository's tests.  Known iff the range is a caret
    \* range and the version that is left out (or the differing pair) is a non-stable version.
    [] d = "KF-composer-01" -> mm.prop = "C20" /\ mm.eco = "composer" /\ mm.text # "" /\ S2C(mm.text)[1] = 94
                               /\ (IF mm.why = "convex" THEN ComposerUnstable(S2C(mm.b)) /\ ~mm.inb
                                   ELSE mm.why = "equal-versions" /\ ComposerUnstable(S2C(mm.a)) /\ ComposerUnstable(S2C(mm.b)))
    [] d = "KF-rpm-01" -> mm.prop = "C11" /\ mm.why = "ref" /\ mm.model = mm.got
    [] OTHER -> FALSE

\* C01: members an open finding declares irregular (judged separately from the regular ones)
Irregular(open, eco, cs) ==
  \/ ("KF-alpm-01" \in open /\ eco = "alpm" /\ AlpmIrregular(cs))
  \/ ("KF-maven-01" \in open /\ eco = "maven" /\ ~MvRegular(cs))
\* the model of what the code computes on such members (the finding's predicted answers)
IrrKey(eco, cs) == IF eco = "maven" THEN MvParseImpl(cs) ELSE cs
IrrCmp(eco, x, y) == IF eco = "maven" THEN MvListCmp(x, y, 1) ELSE IF eco = "alpm" THEN AlpmCmp(x, y) ELSE 2

\* members on which the ecosystem's reference order itself is not a total preorder (see KF-alpm-01,
\* KF-maven-01): convexity (C20) is not claimed across them
OrderIrregular(eco, cs) == (eco = "alpm" /\ AlpmIrregular(cs)) \/ (eco = "maven" /\ ~MvRegular(cs))

\* the bounds written in a range text: split at spaces, commas and brackets, leading operator characters
\* dropped.  A range with an order-irregular bound is not claimed to be convex either.
RECURSIVE SplitOn(_, _)
SplitOn(cs, seps) ==
  LET k == FirstAt(cs, 1, LAMBDA c : c \in seps) IN
  IF k > Len(cs) THEN <<cs>> ELSE <<SubSeq(cs, 1, k - 1)>> \o SplitOn(SubSeq(cs, k + 1, Len(cs)), seps)
StripOps(t) == LET k == FirstNotAt(t, 1, LAMBDA c : c \in {60, 62, 61, 33, 126, 94}) IN SubSeq(t, k, Len(t))
RangeBounds(text) == LET toks == SplitOn(S2C(text), {32, 44, 91, 93, 40, 41, 124}) IN
                     {StripOps(toks[i]) : i \in 1..Len(toks)} \ {<<>>, S2C("and")}
RangeOrderIrregular(eco, text) == eco \in {"alpm", "maven"} /\ \E b \in RangeBounds(text) : OrderIrregular(eco, b)

KnownAs(open, mm) ==
  LET S == {d \in open : Dev(d, mm)} IN IF S = {} THEN "" ELSE CHOOSE d \in S : TRUE
=============================================================================
