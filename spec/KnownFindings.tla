--------------------------- MODULE KnownFindings ---------------------------
(***************************************************************************)
(* Named deviations: what the code is known to do wrong today.  A mismatch *)
(* record mm is KNOWN iff some *open* deviation d (listed in               *)
(* /verif/known-findings.txt and passed in as OpenFindings) has            *)
(* Dev(d, mm) = TRUE, i.e. its structural guard holds for the inputs AND   *)
(* the observed wrong answer is the one the deviation predicts.  Anything  *)
(* else is a violation.  A deviation that is not open matches nothing.     *)
(***************************************************************************)
EXTENDS Chars

\* mm is a mismatch record; the fields used depend on the deviation.
Dev(d, mm) ==
  CASE d = "none" -> FALSE
    [] OTHER -> FALSE

KnownAs(open, mm) ==
  LET S == {d \in open : Dev(d, mm)} IN IF S = {} THEN "" ELSE CHOOSE d \in S : TRUE
=============================================================================
