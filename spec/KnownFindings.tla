--------------------------- MODULE KnownFindings ---------------------------
(***************************************************************************)
(* Named deviations: what the code is known to do wrong today.  A mismatch *)
(* record mm is KNOWN iff some *open* deviation d (listed in               *)
(* /verif/known-findings.txt and passed in as OpenFindings) has            *)
(* Dev(d, mm) = TRUE, i.e. its structural guard holds for the inputs AND   *)
(* the observed wrong answer is the one the deviation predicts.  Anything  *)
(* else is a violation.  A deviation that is not open matches nothing.     *)
(***************************************************************************)
EXTENDS Chars, Dpkg, Rpm

\* mm is a mismatch record; the fields used depend on the deviation.
Dev(d, mm) ==
  CASE d = "none" -> FALSE
    \* rpm: compareRPMVersionString is not rpmvercmp (alphabetic segment newer than numeric, '_' and '~'
    \* glued into alphabetic runs, '^' a plain separator, "" older than "0"); pinned by the repository's
    \* own tests (1.2.3-1 < 1.2.3-a).  Known iff the implementation model predicts the observed sign.
    [] d = "KF-rpm-01" -> mm.prop = "C11" /\ mm.why = "ref" /\ RpmImplCmp(S2C(mm.a), S2C(mm.b)) = mm.got
    [] OTHER -> FALSE

KnownAs(open, mm) ==
  LET S == {d \in open : Dev(d, mm)} IN IF S = {} THEN "" ELSE CHOOSE d \in S : TRUE
=============================================================================
