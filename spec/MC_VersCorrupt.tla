--------------------------- MODULE MC_VersCorrupt ---------------------------
EXTENDS VersCorrupt, VersSeeds, Json
CONSTANTS NSeeds, RoutingIdx
PreSeedSet == {<<"pypi", "vers:pypi/" \o SeedTable.pypi[i][1], p>> : i \in 1..NSeeds, p \in PypiPreProbes}
SeedsDef == SeedSet(NSeeds) \cup NearMissSet \cup PreSeedSet \cup SingleSeedSet \cup ExclSeedSet \cup GoBuildSeedSet
RoutingDef == RoutingSet(RoutingIdx)
Init == CInit
Next == CNext
Emit == cbytes # <<>> => PrintT(<<"VEC", ToJson(Vec)>>)
=============================================================================
