--------------------------- MODULE MC_VersCorrupt ---------------------------
EXTENDS VersCorrupt, VersSeeds, Json
CONSTANTS NSeeds, RoutingIdx
SeedsDef == SeedSet(NSeeds) \cup NearMissSet
RoutingDef == RoutingSet(RoutingIdx)
Init == CInit
Next == CNext
Emit == cbytes # <<>> => PrintT(<<"VEC", ToJson(Vec)>>)
=============================================================================
