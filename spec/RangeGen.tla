------------------------------ MODULE RangeGen ------------------------------
(* The generator automaton of comparator-range structures (see Range.tla).   *)
EXTENDS Range
-----------------------------------------------------------------------------
(* Generator.  bounds are referred to by index 1..NB into the per-ecosystem    *)
(* bound list supplied by the run (RangeData).  A structure is built group by  *)
(* group, constraint by constraint.                                            *)
CONSTANT NB          \* number of bounds per ecosystem
VARIABLES reco, rgroups, rsep, rorsep, rdone
rvars == <<reco, rgroups, rsep, rorsep, rdone>>

Lower(e) == {i \in 1..Len(Syntax(e).ops) : Syntax(e).ops[i].m \in {"gt", "ge"}}
Upper(e) == {i \in 1..Len(Syntax(e).ops) : Syntax(e).ops[i].m \in {"lt", "le"}}
Point(e) == {i \in 1..Len(Syntax(e).ops) : Syntax(e).ops[i].m \in {"eq", "ne"}}
AllOps(e) == 1..Len(Syntax(e).ops)

\* the catalogue of structures (each is a sequence of groups of <<op index, bound index>>)
Singles(e) == {<< << <<o, b>> >> >> : o \in AllOps(e), b \in 1..NB}
Pairs(e)   == {<< << <<o1, p[1]>>, <<o2, p[2]>> >> >> : o1 \in AllOps(e), o2 \in AllOps(e),
                                                        p \in {<<2, 4>>, <<4, 2>>, <<3, 3>>}}
Triples(e) == {<< << <<lo, 1>>, <<hi, 5>>, <<pt, 3>> >> >> : lo \in Lower(e), hi \in Upper(e), pt \in Point(e)}
              \cup {<< << <<pt, 3>>, <<hi, 5>>, <<lo, 1>> >> >> : lo \in Lower(e), hi \in Upper(e), pt \in Point(e)}
              \cup {<< << <<hi, 4>>, <<pt, 2>>, <<lo, 2>> >> >> : lo \in Lower(e), hi \in Upper(e), pt \in Point(e)}
Ors(e)     == IF Syntax(e).ors = <<>> THEN {}
              ELSE {<< << <<o1, 2>> >>, << <<o2, 4>> >> >> : o1 \in AllOps(e), o2 \in AllOps(e)}
                   \cup {<< << <<lo, 1>>, <<hi, 2>> >>, << <<lo2, 4>> >> >> : lo \in Lower(e), hi \in Upper(e), lo2 \in Lower(e)}
                   \cup {<< << <<hi, 2>> >>, << <<lo, 3>>, <<hi2, 5>> >>, << <<pt, 6>> >> >> :
                            lo \in Lower(e), hi \in Upper(e), hi2 \in Upper(e), pt \in Point(e)}
Structures(e) == (IF Syntax(e).min <= 1 THEN Singles(e) ELSE {}) \cup Pairs(e) \cup Triples(e) \cup Ors(e)

\* ecosystems whose documentation gives a blank and a comma as interchangeable AND separators: both may occur in one group
MixedSeps(e) == e \in {"conan"}
RInit(E) == reco \in E /\ rgroups = <<>> /\ rsep = 0 /\ rorsep = 0 /\ rdone = FALSE
\* one step chooses a whole structure and its separators (the structure catalogue is the alphabet)
RNext == /\ ~rdone
         /\ \E st \in Structures(reco) :
              \E s \in 1..(Len(Syntax(reco).ands) + (IF MixedSeps(reco) /\ (\E g \in 1..Len(st) : Len(st[g]) >= 3) THEN 2 ELSE 0)) :
                \E os \in (IF Len(st) > 1 THEN 1..Len(Syntax(reco).ors) ELSE {0}) :
                   /\ (Len(st) = 1 /\ Len(st[1]) = 1 => s = 1)        \* separators irrelevant for singles
                   /\ rgroups' = st /\ rsep' = s /\ rorsep' = os
         /\ rdone' = TRUE /\ reco' = reco

\* text rendering, given the bound texts bt (a sequence of strings)
RECURSIVE JoinStr(_, _)
JoinStr(q, sep) == IF q = <<>> THEN "" ELSE IF Len(q) = 1 THEN q[1] ELSE q[1] \o sep \o JoinStr(Tail(q), sep)
RText(e, groups, s, os, bt) ==
  LET syn == Syntax(e)
      ctext(c) == syn.ops[c[1]].t \o bt[c[2]]
      n == Len(syn.ands)
      \* s <= n: one separator throughout; s = n + 1, n + 2: the separators alternate, starting with the first / second
      sepAt(k) == IF s <= n THEN syn.ands[s] ELSE syn.ands[((s - n - 1 + k - 1) % n) + 1]
      RECURSIVE JoinMixed(_, _)
      JoinMixed(q, k) == IF Len(q) = 1 THEN q[1] ELSE q[1] \o sepAt(k) \o JoinMixed(Tail(q), k + 1)
      gtext(g) == JoinMixed([i \in 1..Len(g) |-> ctext(g[i])], 1) IN
  JoinStr([i \in 1..Len(groups) |-> gtext(groups[i])], IF os = 0 THEN "" ELSE syn.ors[os])
RAbstract(e, groups) ==
  [g \in 1..Len(groups) |-> [c \in 1..Len(groups[g]) |-> [op |-> Syntax(e).ops[groups[g][c][1]].m, b |-> groups[g][c][2]]]]
=============================================================================
