---------------------------- MODULE MC_Shorthand ----------------------------
(* Exploration of the shorthand table: every row (ecosystem, construct, base) *)
(* is one behaviour; its final state is emitted with the probes derived from  *)
(* its bounds and the texts TLC rendered.                                     *)
EXTENDS Shorthand, Json, SequencesExt
CONSTANT E
Init == SInit(E)
Next == SNext
Emit == svec # <<>> =>
          PrintT(<<"VEC", ToJson([eco |-> svec.eco, construct |-> svec.construct, text |-> svec.text,
                                  ivs |-> svec.ivs, neg |-> svec.neg,
                                  probes |-> SetToSeq({[t |-> VTextF(svec.eco, p, svec.fam), p |-> p] : p \in ProbesOf(svec)})])>>)
\* design-level sanity of the table: every row contains its own base and excludes its upper bound
RowSane == svec # <<>> /\ ~svec.neg =>
             \A k \in 1..Len(svec.ivs) :
                /\ TCmp(svec.ivs[k].lo, svec.ivs[k].hi) <= 0
                /\ (svec.ivs[k].loInc /\ Real(svec.ivs[k].lo) /\ TCmp(svec.ivs[k].lo, svec.ivs[k].hi) < 0
                      => Member(svec.ivs[k].lo, svec.ivs, FALSE))
                /\ (~svec.ivs[k].hiInc /\ Len(svec.ivs) = 1 => ~Member(svec.ivs[k].hi, svec.ivs, FALSE))
=============================================================================
