---------------------------- MODULE UniversTrace ----------------------------
(***************************************************************************)
(* Trace specification: validates observations recorded from the real      *)
(* go-univers code (NDJSON, one event per line) against the operators of   *)
(* the system specification.  One event is consumed per step.  A mismatch  *)
(* does not block the trace (the rest must still be examined); it is       *)
(* printed as <<"MISMATCH", json>> and classified against the open known   *)
(* findings.  TraceAccepted requires that every line was consumed.         *)
(***************************************************************************)
EXTENDS Order, KnownFindings, Json, SequencesExt, FiniteSetsExt, Dpkg

CONSTANTS TraceFile,     \* path of the NDJSON trace
          Prop,          \* property id being judged, e.g. "C01"
          OpenFindings   \* set of open known-finding ids for Prop

TraceLog == ndJsonDeserialize(TraceFile)

VARIABLE l
TInit == l = 1

MaxReport == 40          \* mismatch lines printed per event (the count is always printed)

Report(S) ==  \* S: set of mismatch records
  LET tagged == {[mm EXCEPT !.known = KnownAs(OpenFindings, mm)] : mm \in S}
      viol   == {mm \in tagged : mm.known = ""}
      known  == tagged \ viol
      firstN(X) == LET q == SetToSeq(X) IN SubSeq(q, 1, Min2(Len(q), MaxReport))
      pr(q) == \A i \in 1..Len(q) : PrintT(<<"MISMATCH", ToJson(q[i])>>)
  IN /\ pr(firstN(viol))
     /\ pr(firstN(known))
     /\ (S = {} \/ PrintT(<<"INFO", ToJson([mismatches |-> Cardinality(S), violations |-> Cardinality(viol),
                                             knownCounts |-> SetToSeq({<<d, Cardinality({mm \in known : mm.known = d})>> :
                                                                        d \in {mm.known : mm \in known}})])>>))

-----------------------------------------------------------------------------
(* C01: the observed Compare matrix is explained by one rank per version,    *)
(* within each partition (alpm: with / without pkgrel).                      *)
MatrixC01(ev) ==
  LET n  == ev.n
      I  == 1..n
      M  == ev.m
      badsign == {p \in I \X I : M[p[1]][p[2]] \notin {-1, 0, 1}}
      parts == {ev.part[i] : i \in I}
      unexpl == UNION {Unexplained(M, {i \in I : ev.part[i] = q}) : q \in parts}
      rec(p, why) == [prop |-> "C01", eco |-> ev.eco, why |-> why, a |-> ev.texts[p[1]], b |-> ev.texts[p[2]],
                      got |-> M[p[1]][p[2]], rev |-> M[p[2]][p[1]], known |-> ""]
  IN {rec(p, "sign") : p \in badsign} \cup {rec(p, "rank") : p \in unexpl \ badsign}
     \cup {[prop |-> "C01", eco |-> ev.eco, why |-> "panic", a |-> ev.panics[i], b |-> "", got |-> 0, rev |-> 0, known |-> ""]
             : i \in 1..Len(ev.panics)}

(* Reference orders (C08-C14): the observed sign of every in-scope pair is the  *)
(* sign the reference operator computes on the same two texts.                *)
RefKey(prop, cs) == CASE prop = "C10" -> DKey(cs) [] prop = "C11" -> RKey(cs)
RefScope(prop, cs) == CASE prop = "C10" -> DInScope(cs) [] prop = "C11" -> RInScope(cs)
RefCmpKey(prop, x, y) == CASE prop = "C10" -> DCmpKey(x, y) [] prop = "C11" -> RCmpKey(x, y)

MatrixRef(ev) ==
  LET n   == ev.n
      M   == ev.m
      cs  == TLCEval([i \in 1..n |-> S2C(ev.texts[i])])
      I   == {i \in 1..n : RefScope(Prop, cs[i])}
      key == TLCEval([i \in I |-> RefKey(Prop, cs[i])])
      bad == {p \in I \X I : RefCmpKey(Prop, key[p[1]], key[p[2]]) # M[p[1]][p[2]]}
  IN IF PrintT(<<"INFO", ToJson([judged |-> Cardinality(I) * Cardinality(I), inscope |-> Cardinality(I)])>>) THEN
     {[prop |-> Prop, eco |-> ev.eco, why |-> "ref", a |-> ev.texts[p[1]], b |-> ev.texts[p[2]],
       got |-> M[p[1]][p[2]], want |-> RefCmpKey(Prop, key[p[1]], key[p[2]]), known |-> ""] : p \in bad}
     ELSE {}

(* Spec audit: the reference operator against answers of an executable         *)
(* reference (dpkg, node-semver, packaging, Maven) or a published table.       *)
(* A disagreement makes the *spec* suspect; it is never a verdict on the code. *)
AuditRef(ev) ==
  LET cs  == TLCEval([i \in 1..Len(ev.texts) |-> S2C(ev.texts[i])])
      key == TLCEval([i \in 1..Len(ev.texts) |-> RefKey(Prop, cs[i])])
      bad == {q \in 1..Len(ev.pairs) :
                RefCmpKey(Prop, key[ev.pairs[q][1]], key[ev.pairs[q][2]]) # ev.pairs[q][3]}
      oos == {i \in 1..Len(ev.texts) : ~RefScope(Prop, cs[i])}
  IN {[prop |-> Prop, why |-> "audit", a |-> ev.texts[ev.pairs[q][1]], b |-> ev.texts[ev.pairs[q][2]],
       ref |-> ev.pairs[q][3], spec |-> RefCmpKey(Prop, key[ev.pairs[q][1]], key[ev.pairs[q][2]]), known |-> ""] : q \in bad}
     \cup {[prop |-> Prop, why |-> "audit-scope", a |-> ev.texts[i], b |-> "", ref |-> 0, spec |-> 0, known |-> ""] : i \in oos}

Judge(ev) ==
  CASE ev.k = "matrix" /\ Prop = "C01" -> MatrixC01(ev)
    [] ev.k = "audit" -> AuditRef(ev)
    [] ev.k = "matrix" -> MatrixRef(ev)
    [] OTHER -> {[prop |-> Prop, why |-> "unjudged event kind", k |-> ev.k, known |-> ""]}

TNext == /\ l <= Len(TraceLog)
         /\ Report(Judge(TraceLog[l]))
         /\ l' = l + 1

TraceAccepted == TLCGet("stats").diameter - 1 = Len(TraceLog)
=============================================================================
