---------------------------- MODULE UniversTrace ----------------------------
(***************************************************************************)
(* Trace specification: validates observations recorded from the real      *)
(* go-univers code (NDJSON, one event per line) against the operators of   *)
(* the system specification.  One event is consumed per step.  A mismatch  *)
(* does not block the trace (the rest must still be examined); it is       *)
(* printed as <<"MISMATCH", json>> and classified against the open known   *)
(* findings.  TraceAccepted requires that every line was consumed.         *)
(***************************************************************************)
EXTENDS Order, KnownFindings, DocOrder, Range, ShorthandSem, VersSyntax, CliSem, TotalitySem, Json, SequencesExt, FiniteSetsExt, Dpkg, MavenCV, SemVer, Pep440, GemVersion, Apk

CONSTANTS TraceFile,     \* path of the NDJSON trace
          Prop,          \* property id being judged, e.g. "C01"
          OpenFindings   \* set of open known-finding ids for Prop

TraceLog == ndJsonDeserialize(TraceFile)

VARIABLES l,        \* position in the trace
          memo      \* C19: first result seen per operation key (history variable of the trace: results are
                    \* functions of their arguments, so every later result for the same key must equal it)
TInit == l = 1 /\ memo = [k \in {} |-> ""]

MaxReport == 40          \* mismatch lines printed per event (the count is always printed)

Report(S) ==  \* S: set of mismatch records
  LET tagged == {[mm EXCEPT !.known = KnownAs(OpenFindings, mm)] @@ [evidx |-> l] : mm \in S}
      viol   == {mm \in tagged : mm.known = ""}
      known  == tagged \ viol
      firstN(X) == LET q == SetToSeq(X) IN SubSeq(q, 1, Min2(Len(q), MaxReport))
      pr(q) == \A i \in 1..Len(q) : PrintT(<<"MISMATCH", ToJson(q[i])>>)
  IN /\ pr(firstN(viol))
     /\ pr(firstN(known))
     /\ (S = {} \/ PrintT(<<"INFO", ToJson([mismatches |-> Cardinality(S), violations |-> Cardinality(viol),
                                             knownCounts |-> SetToSeq({<<d, Cardinality({mm \in known : mm.known = d})>> :
                                                                        d \in {mm.known : mm \in known}})])>>))

-----------------------------------------------------------------------------
(* C01: the observed Compare matrix is explained by one rank per version,    *)
(* within each partition (alpm: with / without pkgrel).                      *)
MatrixC01(ev) ==
  LET n  == ev.n
      I  == 1..n
      M  == ev.m
      badsign == {p \in I \X I : M[p[1]][p[2]] \notin {-1, 0, 1}}
      parts == {ev.part[i] : i \in I}
      unexpl == UNION {Unexplained(M, {i \in I : ev.part[i] = q}) : q \in parts}
      \* members an open finding declares irregular are set aside: the regular ones must be
      \* explained by a rank on their own; what only fails with irregular members present is
      \* classified by the finding's model (KnownFindings.tla)
      irr == IF unexpl = {} THEN {} ELSE {i \in I : Irregular(OpenFindings, ev.eco, S2CX(ev.texts[i]))}
      unexplReg == IF irr = {} THEN unexpl
                   ELSE UNION {Unexplained(M, {i \in I \ irr : ev.part[i] = q}) : q \in parts}
      ikey == IF irr = {} THEN <<>> ELSE TLCEval([i \in I |-> IrrKey(ev.eco, S2CX(ev.texts[i]))])
      rec(p, why) == [prop |-> "C01", eco |-> ev.eco, why |-> why, a |-> ev.texts[p[1]], b |-> ev.texts[p[2]],
                      got |-> M[p[1]][p[2]], rev |-> M[p[2]][p[1]], model |-> 2, known |-> ""]
      \* drift report (INFO, never a verdict): observed signs against the documented order of DocOrder.tla
      docI == IF ev.eco \in DocEcos THEN {i \in I : DocScope(ev.eco, S2CX(ev.texts[i]))} ELSE {}
      docK == TLCEval([i \in docI |-> S2CX(ev.texts[i])])
      docBad == {p \in docI \X docI : DocCmp(ev.eco, docK[p[1]], docK[p[2]]) # M[p[1]][p[2]]}
      docEx == LET q == SetToSeq(docBad) IN [j \in 1..Min2(Len(q), 3) |-> <<ev.texts[q[j][1]], ev.texts[q[j][2]], M[q[j][1]][q[j][2]]>>]
      docOk == ev.eco \notin DocEcos
               \/ PrintT(<<"INFO", ToJson([docOrder |-> ev.eco, docMembers |-> Cardinality(docI), docOutOfScope |-> n - Cardinality(docI),
                                            docDrift |-> Cardinality(docBad), docExamples |-> docEx])>>)
  IN IF ~docOk THEN {} ELSE
     {rec(p, "sign") : p \in badsign} \cup {rec(p, "rank") : p \in unexplReg \ badsign}
     \cup {[rec(p, "rank-irregular") EXCEPT !.model = IrrCmp(ev.eco, ikey[p[1]], ikey[p[2]])]
             : p \in (unexpl \ unexplReg) \ badsign}
     \cup {[prop |-> "C01", eco |-> ev.eco, why |-> "panic", a |-> ev.panics[i], b |-> "", got |-> 0, rev |-> 0, model |-> 2, known |-> ""]
             : i \in 1..Len(ev.panics)}

(* Reference orders (C08-C14): the observed sign of every in-scope pair is the  *)
(* sign the reference operator computes on the same two texts.                *)
RefKey(prop, eco, cs) == CASE prop = "C10" -> DKey(cs) [] prop = "C08" -> SvParse(cs) [] prop = "C09" -> PKey(cs) [] prop = "C13" -> GCanonical(cs) [] prop = "C14" -> ApkKey(cs) [] prop = "C11" -> RKey(cs) [] prop = "C12" -> MvKey(cs)
RefScope(prop, eco, cs) == CASE prop = "C10" -> DInScope(cs) [] prop = "C08" -> SvInScope(eco, cs) [] prop = "C09" -> PInScope(cs) [] prop = "C13" -> GInScope(cs) [] prop = "C14" -> ApkInScope(cs) [] prop = "C11" -> RInScope(cs) [] prop = "C12" -> MvInScope(cs)
RefCmpKey(prop, x, y) == CASE prop = "C10" -> DCmpKey(x, y) [] prop = "C08" -> SvCmpKey(x, y) [] prop = "C09" -> PCmpKey(x, y) [] prop = "C13" -> GCmpKey(x, y) [] prop = "C14" -> ApkCmpKey(x, y) [] prop = "C11" -> RCmpKey(x, y) [] prop = "C12" -> MvCmpKey(x, y)

\* Where the property's quantifier is "all pairs over <a grammar>" (not "all pairs the ecosystem accepts"), a text of that
\* grammar which the parser rejects takes every pair it belongs to out of the order: C10 (dpkg-valid strings), C11 (a
\* non-empty version part), C12 (the conventional shapes), C14 (the well-formed grammar, every number below 10^9).
\* C08, C09 and C13 are stated over what the ecosystem accepts / over a looser description and claim nothing here.
AllRunsShort(cs) == \A i \in 1..Len(cs) : IsDigit(cs[i]) =>
                      \E j \in i..(IF i + 9 <= Len(cs) THEN i + 9 ELSE Len(cs) + 1) : j > Len(cs) \/ ~IsDigit(cs[j])
RefMustAccept(prop, eco, cs) ==
  CASE prop = "C10" -> DInScope(cs) [] prop = "C11" -> RInScope(cs) [] prop = "C12" -> MvInScope(cs)
    [] prop = "C14" -> ApkInScope(cs) /\ AllRunsShort(cs) [] OTHER -> FALSE

MatrixRef(ev) ==
  LET n   == ev.n
      M   == ev.m
      cs  == TLCEval([i \in 1..n |-> S2C(ev.texts[i])])
      I   == {i \in 1..n : RefScope(Prop, ev.eco, cs[i])}
      key == TLCEval([i \in I |-> RefKey(Prop, ev.eco, cs[i])])
      W(p) == RefCmpKey(Prop, key[p[1]], key[p[2]])
      \* what the implementation model of a recorded deviation predicts for the pair (2 = no model)
      Mdl(p) == IF Prop = "C11" THEN RpmImplCmpKey(key[p[1]], key[p[2]])
                ELSE IF Prop = "C09" THEN PCmpKeyL(key[p[1]], key[p[2]], FALSE) ELSE 2
      \* 2 = the reference leaves the pair unclaimed (only C12 has such pairs)
      unclaimed == IF Prop \in {"C12", "C14"} THEN Cardinality({p \in I \X I : W(p) = 2}) ELSE 0
      bad == {p \in I \X I : LET w == W(p) IN w # 2 /\ w # M[p[1]][p[2]]}
      \* texts the real parser rejected although the reference grammar of the property holds them in scope
      rejIn == {i \in 1..Len(ev.rejtexts) : RefScope(Prop, ev.eco, S2C(ev.rejtexts[i]))}
      rejMust == {i \in 1..Len(ev.rejtexts) : RefMustAccept(Prop, ev.eco, S2C(ev.rejtexts[i]))}
  IN IF PrintT(<<"INFO", ToJson([judged |-> Cardinality(I) * Cardinality(I) - unclaimed, inscope |-> Cardinality(I),
                                 rejectedInScope |-> [i \in 1..Cardinality(rejIn) |-> ev.rejtexts[SetToSeq(rejIn)[i]]]])>>) THEN
     {[prop |-> Prop, eco |-> ev.eco, why |-> "ref", a |-> ev.texts[p[1]], b |-> ev.texts[p[2]],
       got |-> M[p[1]][p[2]], want |-> W(p), model |-> Mdl(p), known |-> ""] : p \in bad}
     \cup {[prop |-> Prop, eco |-> ev.eco, why |-> "in-scope-rejected", a |-> ev.rejtexts[i], b |-> "", got |-> 2, want |-> 2, model |-> 2,
             known |-> ""] : i \in rejMust}
     ELSE {}

(* Spec audit: the reference operator against answers of an executable         *)
(* reference (dpkg, node-semver, packaging, Maven) or a published table.       *)
(* A disagreement makes the *spec* suspect; it is never a verdict on the code. *)
AuditCmpKey(prop, x, y) == IF prop = "C12" THEN MvListCmp(x.k7, y.k7, 1) ELSE IF prop = "C14" THEN ApkCmp(x.s, y.s) ELSE RefCmpKey(prop, x, y)
AuditRef(ev) ==
  LET cs  == TLCEval([i \in 1..Len(ev.texts) |-> S2C(ev.texts[i])])
      key == TLCEval([i \in 1..Len(ev.texts) |-> RefKey(Prop, ev.eco, cs[i])])
      bad == {q \in 1..Len(ev.pairs) :
                AuditCmpKey(Prop, key[ev.pairs[q][1]], key[ev.pairs[q][2]]) # ev.pairs[q][3]}
      oos == {i \in 1..Len(ev.texts) : ~RefScope(Prop, ev.eco, cs[i])}
  IN {[prop |-> Prop, why |-> "audit", a |-> ev.texts[ev.pairs[q][1]], b |-> ev.texts[ev.pairs[q][2]],
       ref |-> ev.pairs[q][3], spec |-> AuditCmpKey(Prop, key[ev.pairs[q][1]], key[ev.pairs[q][2]]), known |-> ""] : q \in bad}
     \cup {[prop |-> Prop, why |-> "audit-scope", a |-> ev.texts[i], b |-> "", ref |-> 0, spec |-> 0, known |-> ""] : i \in oos}

(* C08, strict semver only: whatever is accepted is valid per the SemVer 2.0.0   *)
(* grammar ("rejects what SemVer rejects"; the converse is not claimed).         *)
AcceptC08(ev) ==
  IF ev.eco # "semver" THEN {}
  ELSE {[prop |-> "C08", eco |-> ev.eco, why |-> "accepted-invalid", a |-> ev.texts[i], b |-> "", got |-> 1, want |-> 0, known |-> ""]
          : i \in {i \in 1..ev.n : ~SvStrictValid(S2C(ev.texts[i]))}}

(* C02: a comparator range parses and contains v exactly when Den says so from  *)
(* the logged signs of Compare(v, bound).                                       *)
RangeC02(ev) ==
  IF ~ev.parsed
  THEN {[prop |-> "C02", eco |-> ev.eco, why |-> "rejected", text |-> ev.text, probe |-> "", got |-> FALSE, want |-> TRUE,
         err |-> ev.err, known |-> ""]}
  ELSE {[prop |-> "C02", eco |-> ev.eco, why |-> "contains", text |-> ev.text, probe |-> ev.probes[i],
         got |-> ev.contains[i], want |-> Den(ev.groups, ev.signs[i]), err |-> "", known |-> ""]
          : i \in {i \in 1..Len(ev.probes) : ev.contains[i] # Den(ev.groups, ev.signs[i])}}
       \cup {[prop |-> "C02", eco |-> ev.eco, why |-> "panic", text |-> ev.text, probe |-> ev.panics[i], got |-> FALSE,
               want |-> FALSE, err |-> "", known |-> ""] : i \in 1..Len(ev.panics)}

(* C05: a documented shorthand parses, and contains a probe exactly when the      *)
(* probe lies in the documented interval(s).                                     *)
ShortC05(ev) ==
  IF ~ev.parsed
  THEN {[prop |-> "C05", eco |-> ev.eco, why |-> "rejected", construct |-> ev.construct, text |-> ev.text, probe |-> "",
         got |-> FALSE, want |-> TRUE, err |-> ev.err, known |-> "", p |-> <<>>, ivs |-> <<>>]}
  ELSE {[prop |-> "C05", eco |-> ev.eco, why |-> "contains", construct |-> ev.construct, text |-> ev.text, probe |-> ev.probes[i].t,
         got |-> ev.contains[i], want |-> Member(ev.probes[i].p, ev.ivs, ev.neg), err |-> "", known |-> "",
         p |-> ev.probes[i].p, ivs |-> ev.ivs]
          : i \in {i \in 1..Len(ev.probes) : ev.contains[i] # Member(ev.probes[i].p, ev.ivs, ev.neg)}}
       \cup {[prop |-> "C05", eco |-> ev.eco, why |-> "panic", construct |-> ev.construct, text |-> ev.text, probe |-> ev.panics[i],
               got |-> FALSE, want |-> FALSE, err |-> "", known |-> "", p |-> <<>>, ivs |-> <<>>] : i \in 1..Len(ev.panics)}

(* C20: membership depends only on a version's place in the order.                *)
(*  (a) versions that compare equal are both in or both out of every range;      *)
(*  (b) a range without alternatives and exclusions is convex: a version that    *)
(*      is not contained has no contained version at-or-below it together with   *)
(*      one at-or-above it (equivalent to the triple statement).                 *)
MembersC20(ev) ==
  LET I == 1..ev.n
      M == ev.m
      same(i, j) == ev.part[i] = ev.part[j]
      eqbad(r) == {p \in I \X I : p[1] < p[2] /\ same(p[1], p[2]) /\ M[p[1]][p[2]] = 0 /\ M[p[2]][p[1]] = 0
                                   /\ r.contains[p[1]] # r.contains[p[2]]}
      reg == TLCEval({i \in I : ~OrderIrregular(ev.eco, S2C(ev.texts[i]))})
      C(r) == {i \in reg : r.contains[i]}
      cvbad(r) == IF ~r.convex \/ RangeOrderIrregular(ev.eco, r.text) THEN {}
                  ELSE {j \in reg \ C(r) : /\ \E i \in C(r) : same(i, j) /\ M[i][j] <= 0
                                          /\ \E k \in C(r) : same(k, j) /\ M[j][k] <= 0}
      below(r, j) == CHOOSE i \in C(r) : same(i, j) /\ M[i][j] <= 0
      above(r, j) == CHOOSE k \in C(r) : same(k, j) /\ M[j][k] <= 0
  IN UNION {{[prop |-> "C20", eco |-> ev.eco, why |-> "equal-versions", text |-> ev.ranges[q].text,
               a |-> ev.texts[p[1]], b |-> ev.texts[p[2]], c |-> "", ina |-> ev.ranges[q].contains[p[1]],
               inb |-> ev.ranges[q].contains[p[2]], known |-> ""] : p \in eqbad(ev.ranges[q])}
            \cup {[prop |-> "C20", eco |-> ev.eco, why |-> "convex", text |-> ev.ranges[q].text,
               a |-> ev.texts[below(ev.ranges[q], j)], b |-> ev.texts[j], c |-> ev.texts[above(ev.ranges[q], j)],
               ina |-> TRUE, inb |-> FALSE, known |-> ""] : j \in cvbad(ev.ranges[q])}
            : q \in 1..Len(ev.ranges)}
     \cup {[prop |-> "C20", eco |-> ev.eco, why |-> "panic", text |-> ev.panics[i], a |-> "", b |-> "", c |-> "",
             ina |-> FALSE, inb |-> FALSE, known |-> ""] : i \in 1..Len(ev.panics)}

(* C03: plain numeric tuples are accepted and order as integer tuples; a        *)
(* pre-release marker makes a version older, a post-release marker newer.      *)
(* A marker spelling the parser rejects is skipped (counted by the harness).   *)
CmpC03(ev) ==
  LET rec(why) == {[prop |-> "C03", eco |-> ev.eco, why |-> why, kind |-> ev.kind, a |-> ev.a, b |-> ev.b,
                    got |-> ev.got, want |-> ev.want, known |-> ""]} IN
  IF ev.panic # "" THEN rec("panic")
  ELSE IF ev.kind = "tuple" /\ ~(ev.acca /\ ev.accb) THEN rec("plain-version-rejected")
  ELSE IF ~(ev.acca /\ ev.accb) THEN {}
  ELSE IF ev.got # ev.want \/ ev.rev # -ev.want THEN rec("order")
  ELSE {}

(* C04: vers.Contains returns no error and exactly the denotation Den of the      *)
(* well-formed range (union of intervals, '=' points, '!=' exclusions); a probe  *)
(* with pos = -2 is a pypi pre-/dev-release against a range naming none: excluded; *)
(* the lone star contains everything.                                             *)
VersC04(ev) ==
  LET PreP == {ev.prepos[i] : i \in 1..Len(ev.prepos)}       \* chain positions holding a pypi pre-/dev-release
      namesPre == \E i \in 1..Len(ev.cs) : ev.cs[i].pos \in PreP
      want(pr) == IF ev.tag = "star" THEN TRUE
                  ELSE IF pr.pos = -2 \/ (pr.pos \in PreP /\ ~namesPre) THEN FALSE    \* PEP 440 default: excluded
                  ELSE VDen(ev.cs, pr.pos)
      bad == {i \in 1..Len(ev.probes) : ev.probes[i].err \/ ev.probes[i].ok # want(ev.probes[i])} IN
  {[prop |-> "C04", scheme |-> ev.scheme, why |-> IF ev.probes[i].err THEN "error" ELSE "contains", text |-> ev.text,
    probe |-> ev.probes[i].text, got |-> ev.probes[i].ok, want |-> want(ev.probes[i]), msg |-> ev.probes[i].msg, known |-> ""]
     : i \in bad}
  \cup {[prop |-> "C04", scheme |-> ev.scheme, why |-> "panic", text |-> ev.text, probe |-> ev.panics[i], got |-> FALSE,
          want |-> FALSE, msg |-> "", known |-> ""] : i \in 1..Len(ev.panics)}

(* C16: every meaning-preserving spelling of a VERS range gives, on every probe,  *)
(* the result and the error/no-error outcome of the base spelling (codes: 0/1 =   *)
(* false/true without error, 2/3 = with error).                                   *)
VersVarC16(ev) ==
  {[prop |-> "C16", scheme |-> ev.scheme, why |-> "variant-differs", base |-> ev.base, variant |-> ev.variants[p[1]],
    probe |-> ev.probes[p[2]], got |-> ev.res[p[1]][p[2]], want |-> ev.baseres[p[2]], known |-> ""]
     : p \in {p \in (1..Len(ev.variants)) \X (1..Len(ev.probes)) : ev.res[p[1]][p[2]] # ev.baseres[p[2]]}}
  \cup {[prop |-> "C16", scheme |-> ev.scheme, why |-> "panic", base |-> ev.base, variant |-> ev.panics[i], probe |-> "",
          got |-> 9, want |-> 0, known |-> ""] : i \in 1..Len(ev.panics)}

(* C17: vers.Contains returns an error (and false) exactly for strings that are   *)
(* not well-formed - syntax (VParse on the bytes), unsupported scheme, or a         *)
(* version (bound or probe) the scheme's own ecosystem rejects - and otherwise      *)
(* answers with the denotation under that ecosystem's order (logged matrix).        *)
VersWfC17(ev) ==
  LET p  == VParse(ev.bytes)
      n  == Len(p.cons)
      allValid == Len(ev.valid) = n /\ (\A i \in 1..n : ev.valid[i]) /\ ev.probevalid
      wf == p.syntaxOk /\ p.supported /\ ev.eco = (IF p.supported THEN SchemeEco[p.scheme] ELSE "") /\ allValid
      M  == ev.m
      distinct == \A i, k \in 1..n : i # k => M[i][k] # 0
      rank(i) == 1 + Cardinality({k \in 1..n : M[k][i] < 0})
      cs == [i \in 1..n |-> [op |-> p.cons[i].op, pos |-> 2 * rank(i) - 1]]
      E0 == {i \in 1..n : M[n + 1][i] = 0}
      ppos == IF E0 # {} THEN 2 * rank(CHOOSE i \in E0 : TRUE) - 1 ELSE 2 * Cardinality({k \in 1..n : M[k][n + 1] < 0})
      \* pypi: PEP 440's default keeps pre-/dev-release probes out of ranges none of whose constraints names one
      preOut == p.scheme = "pypi" /\ PIsPre(S2C(ev.probe)) /\ ~(\E i \in 1..n : PIsPre(S2C(p.cons[i].v)))
      want == IF preOut THEN FALSE ELSE VDen(cs, ppos)
      rec(why, w) == {[prop |-> "C17", why |-> why, text |-> ev.text, probe |-> ev.probe, scheme |-> p.scheme, ok |-> ev.ok,
                          err |-> ev.err, want |-> w, msg |-> ev.msg, known |-> ""]} IN
  IF Len(ev.panics) > 0 THEN rec("panic", FALSE)
  ELSE IF p.loneStar THEN {}
  ELSE IF p.cons # ev.cons THEN rec("trace-inconsistent", FALSE)
  ELSE IF ~wf THEN (IF ev.err /\ ~ev.ok THEN {} ELSE rec(IF ev.err THEN "true-with-error" ELSE "ill-formed-accepted", FALSE))
  ELSE IF ev.err THEN rec("well-formed-rejected", TRUE)
  ELSE IF distinct /\ Alternates(cs) /\ ev.ok # want THEN rec("routing", want)
  ELSE {}

(* C18: String() is the input up to surrounding whitespace; the text parses again   *)
(* to a value that compares equal (versions) / contains the same versions (ranges); *)
(* ASCII whitespace padding changes neither acceptance nor any comparison or        *)
(* containment result.                                                              *)
RtC18(ev) ==
  LET rec(why, pad) == [prop |-> "C18", eco |-> ev.eco, kind |-> ev.kind, why |-> why, text |-> ev.show, pad |-> pad, known |-> ""]
      base == IF ~ev.acc THEN {}
              ELSE (IF Trim(ev.str) # Trim(ev.text) THEN {rec("String() is not the input text", <<>>)} ELSE {})
                   \cup (IF ~ev.reparse THEN {rec("String() does not parse again", <<>>)}
                         ELSE (IF ev.kind = "v" /\ (ev.selfcmp # 0 \/ ev.revcmp # 0) THEN {rec("re-parsed version does not compare equal", <<>>)} ELSE {})
                              \cup (IF ev.revec # ev.vec THEN {rec("re-parsed value observes differently", <<>>)} ELSE {}))
      padbad(pd) == IF pd.acc # ev.acc THEN {rec("padding changes acceptance", <<pd.l, pd.r>>)}
                    ELSE IF ~ev.acc THEN {}
                    ELSE (IF pd.vec # ev.vec THEN {rec("padding changes a comparison/containment result", <<pd.l, pd.r>>)} ELSE {})
                         \cup (IF ev.kind = "v" /\ pd.cmp0 # 0 THEN {rec("padded version does not compare equal to the unpadded one", <<pd.l, pd.r>>)} ELSE {})
                         \cup (IF ev.kind = "r" /\ pd.pvec # ev.vec THEN {rec("padding a version changes its containment", <<pd.l, pd.r>>)} ELSE {})
  IN base \cup UNION {padbad(ev.pads[i]) : i \in 1..Len(ev.pads)}
     \cup {rec("panic: " \o ev.panics[i], <<>>) : i \in 1..Len(ev.panics)}

(* C15: the CLI prints exactly the library's result (one line, exit 0) when every   *)
(* stage of the decision machine passes, and otherwise a diagnostic (not a result     *)
(* rendering) with exit 1.  The library observation for the same arguments is in the  *)
(* event; ev.lib.kind = "none" when the arguments do not select a library operation.  *)
CliC15(ev) ==
  LET nk == NameKindOf(ev.argv)
      ck == CmdKindOf(ev.argv)
      nargs == IF Len(ev.argv) >= 2 THEN Len(ev.argv) - 2 ELSE 0
      stage == Stage(nk, ck, nargs, ev.lib.ok)
      want  == CASE ev.lib.kind = "compare" -> Digits(ev.lib.int) \o <<10>>
                 [] ev.lib.kind \in {"contains", "vers"} -> BoolText(ev.lib.bool) \o <<10>>
                 [] ev.lib.kind = "sort" -> JoinSp([i \in 1..Len(ev.lib.strs) |-> GoQuote(ev.lib.strs[i])]) \o <<10>>
                 [] OTHER -> <<>>
      claimed == ev.lib.kind # "sort" \/ \A i \in 1..Len(ev.lib.strs) : Quotable(ev.lib.strs[i])
      rec(why) == {[prop |-> Prop, why |-> why, argv |-> ev.show, stdout |-> C2S(ev.stdout), exit |-> ev.exit, stage |-> stage,
                    known |-> ""]} IN
  IF ev.hang THEN rec("hang")
  ELSE IF ev.lib.panic # "" THEN rec("library panic")
  ELSE IF stage = "result" /\ ev.lib.kind = "none" THEN rec("trace-inconsistent")
  ELSE IF stage = "result"
       THEN (IF ev.exit # 0 THEN rec("success must exit 0")
             ELSE IF claimed /\ ev.stdout # want THEN rec("stdout is not the library's result")
             ELSE IF Lines(ev.stdout) # 1 /\ claimed THEN rec("more than one line") ELSE {})
  ELSE (IF ev.exit # 1 THEN rec("failure must exit 1")
        ELSE IF ev.stdout = <<>> \/ IsResultLine(ev.stdout) THEN rec("failure must print a diagnostic, not a result")
        ELSE IF Prop = "C07" /\ stage = "parse-failure" /\ ev.lib.bad # <<>> /\ Len(ev.lib.bad) <= 60 /\ ~ContainsSub(ev.stdout, ev.lib.bad)
             THEN rec("diagnostic does not name the offending argument") ELSE {})

(* C07 (library idiom): for every ordering of a multiset the sorted output is the same    *)
(* multiset of texts, every adjacent pair is non-decreasing under the logged Compare        *)
(* matrix, and the sequence of equivalence classes is the same for every ordering.          *)
SortC07(ev) ==
  LET n == Len(ev.items)
      Ix(t) == CHOOSE i \in 1..n : ev.items[i] = t
      known(t) == \E i \in 1..n : ev.items[i] = t
      count(q, t) == Cardinality({i \in 1..Len(q) : q[i] = t})
      \* the equivalence class of a member: the members that compare equal to it in both directions (a rank number would
      \* give the members of a Compare cycle the same class and hide that their order changes with the input order)
      cls(i) == {y \in 1..n : ev.m[y][i] = 0 /\ ev.m[i][y] = 0}
      inOf(p) == [i \in 1..Len(p) |-> ev.items[p[i]]]
      okperm(q) == Len(ev.outs[q]) = Len(ev.perms[q])
                   /\ \A i \in 1..Len(ev.outs[q]) : known(ev.outs[q][i])
                                                     /\ count(ev.outs[q], ev.outs[q][i]) = count(inOf(ev.perms[q]), ev.outs[q][i])
      nondecr(q) == \A i \in 1..Len(ev.outs[q]) - 1 : ev.m[Ix(ev.outs[q][i])][Ix(ev.outs[q][i + 1])] <= 0
      clsseq(q) == [i \in 1..Len(ev.outs[q]) |-> cls(Ix(ev.outs[q][i]))]
      Q == 1..Len(ev.outs)
      \* the order laws are claimed on sets on which the ecosystem's order can be a total preorder at all:
      \* one alpm pkgrel partition, no order-irregular members (KF-alpm-01 / KF-maven-01)
      ordered == (\A i, k \in 1..Len(ev.part) : ev.part[i] = ev.part[k])
                 /\ \A i \in 1..n : ~OrderIrregular(ev.eco, S2CX(ev.items[i]))
      rec(why, q) == [prop |-> "C07", eco |-> ev.eco, why |-> why, input |-> inOf(ev.perms[q]), output |-> ev.outs[q], known |-> ""] IN
  {rec("output is not the input multiset", q) : q \in {q \in Q : ~okperm(q)}}
  \cup {rec("adjacent output pair out of order", q) : q \in {q \in Q : ordered /\ okperm(q) /\ ~nondecr(q)}}
  \cup {rec("class sequence depends on the input order", q)
          : q \in {q \in Q : ordered /\ okperm(q) /\ okperm(1) /\ Len(ev.perms[q]) = Len(ev.perms[1])
                               /\ {ev.perms[q][i] : i \in 1..Len(ev.perms[q])} = {ev.perms[1][i] : i \in 1..Len(ev.perms[1])}
                               /\ clsseq(q) # clsseq(1)}}
  \cup {[prop |-> "C07", eco |-> ev.eco, why |-> "panic", input |-> <<ev.panics[i]>>, output |-> <<>>, known |-> ""] : i \in 1..Len(ev.panics)}

(* C06: every entry point returns one of the two legal outcomes (code 0 = value, nil error;   *)
(* 1 = nil value, error); vers.Contains never returns (true, error); observers of accepted     *)
(* values do not panic; nothing hangs and long inputs stay within the quadratic budget.        *)
TotalC06(ev) ==
  LET bad(f, name) == {[prop |-> "C06", why |-> name \o ":" \o k \o " outcome " \o ToString(f[k]), input |-> ev.show, n |-> ev.n,
                        tag |-> ev.tag, known |-> ""] : k \in {k \in DOMAIN f : f[k] \notin {0, 1}}} IN
  bad(ev.v, "NewVersion") \cup bad(ev.r, "NewVersionRange") \cup bad(ev.versr, "vers.Contains(range)") \cup bad(ev.versp, "vers.Contains(probe)")
  \cup (IF ev.versw \notin {0, 1} THEN {[prop |-> "C06", why |-> "vers.Contains(whole) outcome " \o ToString(ev.versw), input |-> ev.show, n |-> ev.n, tag |-> ev.tag, known |-> ""]} ELSE {})
  \cup (IF ev.obspanics > 0 THEN {[prop |-> "C06", why |-> "observer panicked: " \o ev.obsmsg, input |-> ev.show, n |-> ev.n, tag |-> ev.tag, known |-> ""]} ELSE {})
  \cup (IF ev.maxms > BudgetMs(ev.n) THEN {[prop |-> "C06", why |-> "over the time budget: " \o ev.slow \o " took " \o ToString(ev.maxms) \o " ms", input |-> ev.show,
                                            n |-> ev.n, tag |-> ev.tag, known |-> ""]} ELSE {})
(* C06 for the CLI: exit status 0 or 1, something on stdout, no hang *)
CliC06(ev) ==
  IF ev.hang \/ ev.exit \notin {0, 1} \/ ev.stdout = <<>>
  THEN {[prop |-> "C06", why |-> "CLI: exit " \o ToString(ev.exit) \o (IF ev.hang THEN " (hang)" ELSE ""), input |-> ev.show, n |-> 0, tag |-> ev.tag, known |-> ""]}
  ELSE {}

Judge(ev) ==
  CASE ev.k = "matrix" /\ Prop = "C01" -> MatrixC01(ev)
    [] ev.k = "total" /\ Prop = "C06" -> TotalC06(ev)
    [] ev.k = "cli" /\ Prop = "C06" -> CliC06(ev) \cup CliC15(ev)
    [] ev.k = "sortset" /\ Prop = "C07" -> SortC07(ev)
    [] ev.k = "cli" /\ Prop \in {"C15", "C07"} -> CliC15(ev)
    [] ev.k = "roundtrip" /\ Prop = "C18" -> RtC18(ev)
    [] ev.k = "verswf" /\ Prop = "C17" -> VersWfC17(ev)
    [] ev.k = "versvar" /\ Prop = "C16" -> VersVarC16(ev)
    [] ev.k = "vers" /\ Prop = "C04" -> VersC04(ev)
    [] ev.k = "cmp" /\ Prop = "C03" -> CmpC03(ev)
    [] ev.k = "members" /\ Prop = "C20" -> MembersC20(ev)
    [] ev.k = "short" /\ Prop = "C05" -> ShortC05(ev)
    [] ev.k = "range" /\ Prop = "C02" -> RangeC02(ev)
    [] ev.k = "matrix" /\ Prop = "C08" -> MatrixRef(ev) \cup AcceptC08(ev)
    [] ev.k = "audit" -> AuditRef(ev)
    [] ev.k = "matrix" -> MatrixRef(ev)
    [] OTHER -> {[prop |-> Prop, why |-> "unjudged event kind", k |-> ev.k, known |-> ""]}

(* C19: every logged call result equals the first result ever seen for the same operation and     *)
(* arguments - within a goroutine run, across goroutines, across call orders and across processes - *)
(* and the deep snapshot of the shared values is the same before and after.                          *)
ConcC19(ev, m) ==
  LET R    == ev.results
      keys == {R[i].key : i \in 1..Len(R)}
      resOf == TLCEval([k \in keys |-> {R[i].res : i \in {i \in 1..Len(R) : R[i].key = k}}])
      badk == {k \in keys : Cardinality(resOf[k]) > 1 \/ (k \in DOMAIN m /\ m[k] \notin resOf[k])}
      rec(why, k, got, want) == [prop |-> "C19", eco |-> ev.eco, phase |-> ev.phase, why |-> why, key |-> k, got |-> got, want |-> want, known |-> ""] IN
  [ mm   |-> {rec("result depends on schedule or history", k, resOf[k], IF k \in DOMAIN m THEN {m[k]} ELSE {}) : k \in badk}
             \cup (IF ev.snapafter # ev.snapbefore THEN {rec("a shared value was modified by an observer", "", {}, {})} ELSE {})
             \cup {rec("panic: " \o ev.panics[i], "", {}, {}) : i \in 1..Len(ev.panics)}
             \cup {rec("a call panicked", k, resOf[k], {}) : k \in {k \in keys : \E r \in resOf[k] : r = "PANIC"}},
    memo |-> [k \in DOMAIN m \cup keys |-> IF k \in DOMAIN m THEN m[k] ELSE CHOOSE r \in resOf[k] : TRUE] ]

(* a data race reported by the Go race detector (a sensor outside the model): not a transition *)
RaceC19(ev) == {[prop |-> "C19", eco |-> "", phase |-> "race-detector", why |-> "data race reported", key |-> ev.report, got |-> {}, want |-> {}, known |-> ""]}

TNext == /\ l <= Len(TraceLog)
         /\ LET ev == TraceLog[l] IN
            IF ev.k = "conc" /\ Prop = "C19"
            THEN LET c == ConcC19(ev, memo) IN Report(c.mm) /\ memo' = c.memo
            ELSE IF ev.k = "race" /\ Prop = "C19" THEN Report(RaceC19(ev)) /\ memo' = memo
            ELSE Report(Judge(ev)) /\ memo' = memo
         /\ l' = l + 1

TraceAccepted == TLCGet("stats").diameter - 1 = Len(TraceLog)
=============================================================================
