---------------------------- MODULE DpkgMachine ----------------------------
(***************************************************************************)
(* dpkg's verrevcmp as the two-cursor machine it is in C (lib/dpkg/        *)
(* version.c): cursors i, j over the two strings, a phase, and the         *)
(* remembered first digit difference.  TLC explores it for every pair of   *)
(* strings up to a bounded length over the Debian alphabet and checks that *)
(* it terminates with the value of the recursive operator VerrevCmp of     *)
(* Dpkg.tla - two independent formulations of the reference must agree.    *)
(***************************************************************************)
EXTENDS Dpkg

CONSTANTS DAlphabet,    \* set of codes
          DMaxLen       \* maximum string length

RECURSIVE StringsUpTo(_)
StringsUpTo(n) == IF n = 0 THEN {<<>>} ELSE StringsUpTo(n - 1) \cup {Append(s, c) : s \in {t \in StringsUpTo(n - 1) : Len(t) = n - 1}, c \in DAlphabet}

VARIABLES sa, sb,      \* the two strings
          ci, cj,      \* cursors
          ph,          \* "nondigit" | "zeros" | "digits" | "done"
          fd,          \* first differing digit (0 = none yet)
          res          \* result once done
dmvars == <<sa, sb, ci, cj, ph, fd, res>>

DMInit == /\ sa \in StringsUpTo(DMaxLen) /\ sb \in StringsUpTo(DMaxLen)
          /\ ci = 1 /\ cj = 1 /\ ph = "nondigit" /\ fd = 0 /\ res = 0

AtA == At(sa, ci)
AtB == At(sb, cj)
\* while (*a || *b): outer loop test happens when entering the non-digit phase
NonDigitStep ==
  /\ ph = "nondigit"
  /\ IF ci > Len(sa) /\ cj > Len(sb) THEN ph' = "done" /\ res' = 0 /\ UNCHANGED <<ci, cj, fd>>
     ELSE IF NonDig(sa, ci) \/ NonDig(sb, cj)
          THEN LET ac == DOrder(AtA)  bc == DOrder(AtB) IN
               IF ac # bc THEN ph' = "done" /\ res' = Sign(ac - bc) /\ UNCHANGED <<ci, cj, fd>>
               ELSE ci' = ci + 1 /\ cj' = cj + 1 /\ UNCHANGED <<ph, fd, res>>
          ELSE ph' = "zeros" /\ fd' = 0 /\ UNCHANGED <<ci, cj, res>>
  /\ UNCHANGED <<sa, sb>>
ZeroStep ==
  /\ ph = "zeros"
  /\ IF AtA = 48 THEN ci' = ci + 1 /\ UNCHANGED <<cj, ph>>
     ELSE IF AtB = 48 THEN cj' = cj + 1 /\ UNCHANGED <<ci, ph>>
     ELSE ph' = "digits" /\ UNCHANGED <<ci, cj>>
  /\ UNCHANGED <<sa, sb, fd, res>>
DigitStep ==
  /\ ph = "digits"
  /\ IF IsDigit(AtA) /\ IsDigit(AtB)
     THEN fd' = (IF fd = 0 THEN AtA - AtB ELSE fd) /\ ci' = ci + 1 /\ cj' = cj + 1 /\ UNCHANGED <<ph, res>>
     ELSE IF IsDigit(AtA) THEN ph' = "done" /\ res' = 1 /\ UNCHANGED <<ci, cj, fd>>
     ELSE IF IsDigit(AtB) THEN ph' = "done" /\ res' = -1 /\ UNCHANGED <<ci, cj, fd>>
     ELSE IF fd # 0 THEN ph' = "done" /\ res' = Sign(fd) /\ UNCHANGED <<ci, cj, fd>>
     ELSE ph' = "nondigit" /\ UNCHANGED <<ci, cj, fd, res>>
  /\ UNCHANGED <<sa, sb>>
DMNext == NonDigitStep \/ ZeroStep \/ DigitStep
DMSpec == DMInit /\ [][DMNext]_dmvars /\ WF_dmvars(DMNext)

MachineAgreesWithRecursion == ph = "done" => res = VerrevCmp(sa, sb)
CursorsInRange == ci <= Len(sa) + 1 /\ cj <= Len(sb) + 1
Terminates == <>(ph = "done")
=============================================================================
