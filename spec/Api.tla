-------------------------------- MODULE Api --------------------------------
(***************************************************************************)
(* The API life-cycle contract (C06, C18).  A client session is a sequence *)
(* of calls; each call to a constructor ends in exactly one of two         *)
(* outcomes - a usable non-nil value with a nil error, or a nil value with *)
(* a non-nil error; observers (Compare, Contains, String) of values always *)
(* return.  Panic, Timeout and "value and error both nil / both non-nil"   *)
(* are NOT transitions: a recorded trace containing one cannot be          *)
(* consumed.  Outcome codes logged by the harness:                         *)
(*   "ok"      value non-nil, err nil        "err"   value nil, err non-nil *)
(*   "both"    value non-nil and err non-nil "none"  value nil and err nil  *)
(*   "panic"   the call panicked             "hang"  the call hit its deadline *)
(***************************************************************************)
EXTENDS Integers, Sequences, FiniteSets, TLC

Outcomes == {"ok", "err"}
Forbidden == {"both", "none", "panic", "hang"}
LegalOutcome(o) == o \in Outcomes

\* ASCII whitespace paddings of C18: all strings of length <= 2 over SP, TAB, CR, LF (as code sequences)
WS == {32, 9, 13, 10}
PadStrings == {<<>>} \cup {<<a>> : a \in WS} \cup {<<a, b>> : a \in WS, b \in WS}
Paddings == PadStrings \X PadStrings

\* A tiny session machine, explored by TLC (MC_Api): a value exists only after an "ok" return, observers are
\* only enabled on existing values and never change them (C19's purity at the design level).
CONSTANT Texts            \* abstract input texts
VARIABLES live,           \* set of values (identified by the text they came from)
          pending,        \* the call in flight: <<>> or <<"parse", t>> / <<"observe", t>>
          log             \* sequence of returned outcomes
avars == <<live, pending, log>>
AInit == live = {} /\ pending = <<>> /\ log = <<>>
Call(t)    == pending = <<>> /\ pending' = <<"parse", t>> /\ UNCHANGED <<live, log>>
RetOk      == pending # <<>> /\ pending[1] = "parse" /\ live' = live \cup {pending[2]} /\ pending' = <<>> /\ log' = Append(log, "ok")
RetErr     == pending # <<>> /\ pending[1] = "parse" /\ live' = live /\ pending' = <<>> /\ log' = Append(log, "err")
Observe(t) == pending = <<>> /\ t \in live /\ pending' = <<"observe", t>> /\ UNCHANGED <<live, log>>
RetObs     == pending # <<>> /\ pending[1] = "observe" /\ pending' = <<>> /\ UNCHANGED <<live, log>>
ANext == (\E t \in Texts : Call(t) \/ Observe(t)) \/ RetOk \/ RetErr \/ RetObs
ASpec == AInit /\ [][ANext]_avars /\ WF_avars(RetOk \/ RetErr \/ RetObs)

OnlyLegalOutcomes == \A i \in 1..Len(log) : LegalOutcome(log[i])
ObserversArePure  == [][(pending # <<>> /\ pending[1] = "observe") => live' = live]_avars
EveryCallReturns  == [](pending # <<>> => <>(pending = <<>>))
=============================================================================
