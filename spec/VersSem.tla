------------------------------ MODULE VersSem ------------------------------
(***************************************************************************)
(* VERS (vers:<scheme>/<constraint>|<constraint>...) - semantics.          *)
(* Versions live on an abstract dense order: K bounds sit at the odd       *)
(* positions 1, 3, ..., 2K-1 of 0..2K and probes at every position, so     *)
(* "the bounds, their neighbours, interior and exterior points" is every   *)
(* position.  A constraint is [op, pos]; a range is a sequence of          *)
(* constraints with pairwise distinct positions.                           *)
(***************************************************************************)
EXTENDS Integers, Sequences, FiniteSets, TLC

VersOps == {"<", "<=", ">", ">=", "=", "!="}
IsLowerOp(o) == o \in {">", ">="}
IsUpperOp(o) == o \in {"<", "<="}
IsRangeOp(o) == IsLowerOp(o) \/ IsUpperOp(o)

\* constraints sorted by position (positions are distinct)
SortByPos(cs) ==
  LET P == {cs[i].pos : i \in 1..Len(cs)}
      RECURSIVE Build(_)
      Build(S) == IF S = {} THEN <<>>
                  ELSE LET m == CHOOSE x \in S : \A y \in S : x <= y
                           c == CHOOSE i \in 1..Len(cs) : cs[i].pos = m IN
                       <<cs[c]>> \o Build(S \ {m})
  IN Build(P)
RangeOps(cs) == LET s == SortByPos(cs) IN SelectSeq(s, LAMBDA c : IsRangeOp(c.op))

\* the VERS shape rule on the sorted < <= > >= subsequence: optional leading upper bound,
\* then lower/upper pairs, optional trailing lower bound
Alternates(cs) ==
  LET r == RangeOps(cs) IN
  \A i \in 1..Len(r) - 1 : IsLowerOp(r[i].op) # IsLowerOp(r[i + 1].op)

\* the denoted intervals, as a set of records [lo, loInc, hi, hiInc] with -1 / 1000 for "unbounded"
VIntervals(cs) ==
  LET r == RangeOps(cs) IN
  {[lo |-> -1, loInc |-> TRUE, hi |-> r[1].pos, hiInc |-> r[1].op = "<="] : x \in {1} \cap {k \in {1} : Len(r) >= 1 /\ IsUpperOp(r[1].op)}}
  \cup {[lo |-> r[i].pos, loInc |-> r[i].op = ">=", hi |-> r[i + 1].pos, hiInc |-> r[i + 1].op = "<="]
          : i \in {i \in 1..Len(r) - 1 : IsLowerOp(r[i].op) /\ IsUpperOp(r[i + 1].op)}}
  \cup {[lo |-> r[Len(r)].pos, loInc |-> r[Len(r)].op = ">=", hi |-> 1000, hiInc |-> TRUE]
          : x \in {1} \cap {k \in {1} : Len(r) >= 1 /\ IsLowerOp(r[Len(r)].op)}}
VInInterval(p, iv) == /\ (IF iv.loInc THEN p >= iv.lo ELSE p > iv.lo)
                     /\ (IF iv.hiInc THEN p <= iv.hi ELSE p < iv.hi)

\* C04: the denotation of a well-formed (alternating) range
VDen(cs, p) ==
  LET eqs  == {cs[i].pos : i \in {i \in 1..Len(cs) : cs[i].op = "="}}
      nes  == {cs[i].pos : i \in {i \in 1..Len(cs) : cs[i].op = "!="}}
      onlyNe == \A i \in 1..Len(cs) : cs[i].op = "!=" IN
  /\ p \notin nes
  /\ (p \in eqs \/ (\E iv \in VIntervals(cs) : VInInterval(p, iv)) \/ onlyNe)
=============================================================================
