---------------------------- MODULE VersVariants ----------------------------
(***************************************************************************)
(* C16: the spellings of a VERS range that must not change its meaning:    *)
(* every reordering of its constraints, spaces inserted anywhere inside or *)
(* around constraints, repeated constraints and empty constraints.         *)
(* A base range is a sequence of constraint texts c1..cn for a scheme; the *)
(* operators below produce the set of variant texts.                       *)
(***************************************************************************)
EXTENDS Integers, Sequences, FiniteSets, TLC

RECURSIVE JoinWith(_, _)
JoinWith(q, sep) == IF q = <<>> THEN "" ELSE IF Len(q) = 1 THEN q[1] ELSE q[1] \o sep \o JoinWith(Tail(q), sep)
Head5(s) == "vers:" \o s \o "/"

\* all reorderings
Perms(n) == {f \in [1..n -> 1..n] : \A i, j \in 1..n : i # j => f[i] # f[j]}
Reordered(cs) == {[i \in 1..Len(cs) |-> cs[f[i]]] : f \in Perms(Len(cs))}

\* a space (or two) at one gap of the constraints part, and spaces at every gap around bars / operators
InsertAt(t, i, sp) == SubSeq(t, 1, i) \o sp \o SubSeq(t, i + 1, Len(t))
Spaced(body) == {InsertAt(body, i, sp) : i \in 0..Len(body), sp \in {" ", "  "}}
SpacedAll(cs) == {JoinWith([i \in 1..Len(cs) |-> " " \o cs[i] \o " "], "|"), JoinWith(cs, " | "), JoinWith(cs, "|  ")}

\* repeated constraints: each non-empty subset repeated at the end, and each constraint doubled in place
Subseqs(cs) == {SelectSeq(cs, LAMBDA c : c \in S) : S \in (SUBSET {cs[i] : i \in 1..Len(cs)}) \ {{}}}
Repeated(cs) == {cs \o d : d \in Subseqs(cs)} \cup {d \o cs : d \in Subseqs(cs)}
                \cup {SubSeq(cs, 1, i) \o <<cs[i]>> \o SubSeq(cs, i + 1, Len(cs)) : i \in 1..Len(cs)}

\* empty constraints
WithEmpties(cs) == {<<"">> \o cs, cs \o <<"">>, <<"", "">> \o cs \o <<" ">>}
                   \cup {SubSeq(cs, 1, i) \o <<"">> \o SubSeq(cs, i + 1, Len(cs)) : i \in 1..Len(cs)}

\* spellings of the star range: empty constraints before / after / on both sides, spaces around the star, both at once
StarVariants(s) ==
  ({Head5(s) \o JoinWith(q, "|") : q \in WithEmpties(<<"*">>) \cup {<<"", "*", "">>, <<" ", "*">>, <<"", "", "*">>, <<"*", " ", "">>}}
   \cup {Head5(s) \o b : b \in Spaced("*") \cup SpacedAll(<<"*">>)}
   \cup {Head5(s) \o b : b \in {"| * |", " |*", " | * ", "|  *", "* |"}})
  \ {Head5(s) \o "*"}

Variants(s, cs) ==
  LET body == JoinWith(cs, "|") IN
  ({Head5(s) \o JoinWith(q, "|") : q \in Reordered(cs) \cup Repeated(cs) \cup WithEmpties(cs)}
   \cup {Head5(s) \o b : b \in Spaced(body) \cup SpacedAll(cs)}
   \cup {Head5(s) \o JoinWith([i \in 1..Len(q) |-> " " \o q[i]], " |") \o "| " \o q[1] : q \in Reordered(cs)})
  \ {Head5(s) \o body}
=============================================================================
