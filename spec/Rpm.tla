-------------------------------- MODULE Rpm --------------------------------
(***************************************************************************)
(* Reference order of RPM versions: rpmvercmp() of rpmio/rpmvercmp.c and   *)
(* the E:V-R comparison of rpmverCmp, transcribed on code sequences.       *)
(* No executable rpm exists on this image; the audit is the published      *)
(* test table of rpm (tests/rpmvercmp.at), stated below as ASSUMEs that    *)
(* TLC evaluates on every run.                                             *)
(***************************************************************************)
EXTENDS Chars

RAt(s, i) == IF i <= Len(s) THEN s[i] ELSE 0
RSep(c) == ~IsAlnum(c) /\ c # 126 /\ c # 94          \* everything but alnum, ~ and ^

RECURSIVE Rvc(_, _, _, _)
Rvc(a, i0, b, j0) ==
  IF i0 > Len(a) /\ j0 > Len(b) THEN 0
  ELSE
  LET i  == FirstNotAt(a, i0, RSep)
      j  == FirstNotAt(b, j0, RSep)
      ca == RAt(a, i)
      cb == RAt(b, j) IN
  IF ca = 126 \/ cb = 126 THEN          \* tilde sorts before everything, even the end
       IF ca # 126 THEN 1 ELSE IF cb # 126 THEN -1 ELSE Rvc(a, i + 1, b, j + 1)
  ELSE IF ca = 94 \/ cb = 94 THEN       \* caret: after the end, before any further segment
       IF ca = 0 THEN -1 ELSE IF cb = 0 THEN 1
       ELSE IF ca # 94 THEN 1 ELSE IF cb # 94 THEN -1 ELSE Rvc(a, i + 1, b, j + 1)
  ELSE IF ca = 0 \/ cb = 0 THEN         \* one side ran out: the side with characters left is newer
       IF ca = 0 /\ cb = 0 THEN 0 ELSE IF ca # 0 THEN 1 ELSE -1
  ELSE
  LET isnum == IsDigit(ca)
      InSeg(c) == IF isnum THEN IsDigit(c) ELSE IsAlpha(c)
      ea == FirstNotAt(a, i, InSeg)
      eb == FirstNotAt(b, j, InSeg)
      sa == SubSeq(a, i, ea - 1)
      sb == SubSeq(b, j, eb - 1) IN
  IF sb = <<>> THEN (IF isnum THEN 1 ELSE -1)        \* numeric segment newer than alphabetic
  ELSE LET c == IF isnum THEN NumCmp(sa, sb) ELSE LexCmp(sa, sb) IN
       IF c # 0 THEN c ELSE Rvc(a, ea, b, eb)

Rpmvercmp(a, b) == IF a = b THEN 0 ELSE Rvc(a, 1, b, 1)

\* [epoch:]version[-release]: epoch = leading digits before the first ':', release = after the last '-'
RSplit(s) ==
  LET c    == IndexOf(s, 58)
      ep   == IF c > 1 /\ AllDigits(SubSeq(s, 1, c - 1)) THEN c ELSE 0
      rest == IF ep = 0 THEN s ELSE SubSeq(s, ep + 1, Len(s))
      h    == LastIndexOf(rest, 45) IN
  [ epoch   |-> IF ep = 0 THEN <<>> ELSE SubSeq(s, 1, ep - 1),
    version |-> IF h = 0 THEN rest ELSE SubSeq(rest, 1, h - 1),
    hasRel  |-> h # 0,
    release |-> IF h = 0 THEN <<>> ELSE SubSeq(rest, h + 1, Len(rest)) ]

RKey(s) == RSplit(s)
RCmpKey(x, y) ==
  LET e == NumCmp(x.epoch, y.epoch) IN
  IF e # 0 THEN e
  ELSE LET v == Rpmvercmp(x.version, y.version) IN
       IF v # 0 THEN v ELSE Rpmvercmp(x.release, y.release)
RpmCmp(a, b) == RCmpKey(RKey(a), RKey(b))

\* The quantifier of C11: characters [0-9A-Za-z._+~^], non-empty version part.  rpm treats a
\* missing release as "older than any release"; that coincides with comparing an empty string
\* exactly when the present release is newer than the empty string, so other releases (empty,
\* only separators, leading '~') are not claimed.
RChar(c) == IsAlnum(c) \/ c \in {46, 95, 43, 126, 94}
RInScope(s) ==
  LET k == RSplit(s) IN
  /\ k.version # <<>>
  /\ \A i \in 1..Len(k.version) : RChar(k.version[i])
  /\ \A i \in 1..Len(k.release) : RChar(k.release[i])
  /\ Len(StripZ(k.epoch)) <= 18      \* every epoch below 10^18 (the parser reads it as a 64-bit integer)
  /\ (k.hasRel => Rpmvercmp(k.release, <<>>) = 1)

-----------------------------------------------------------------------------
(* rpm's own test table (tests/rpmvercmp.at).                                *)
RT(a, b, r) == Rpmvercmp(S2C(a), S2C(b)) = r
ASSUME /\ RT("1.0", "1.0", 0) /\ RT("1.0", "2.0", -1) /\ RT("2.0", "1.0", 1)
       /\ RT("2.0.1", "2.0.1", 0) /\ RT("2.0", "2.0.1", -1) /\ RT("2.0.1", "2.0", 1)
       /\ RT("2.0.1a", "2.0.1a", 0) /\ RT("2.0.1a", "2.0.1", 1) /\ RT("2.0.1", "2.0.1a", -1)
       /\ RT("5.5p1", "5.5p1", 0) /\ RT("5.5p1", "5.5p2", -1) /\ RT("5.5p2", "5.5p1", 1)
       /\ RT("5.5p10", "5.5p10", 0) /\ RT("5.5p1", "5.5p10", -1) /\ RT("5.5p10", "5.5p1", 1)
       /\ RT("10xyz", "10.1xyz", -1) /\ RT("10.1xyz", "10xyz", 1)
       /\ RT("xyz10", "xyz10", 0) /\ RT("xyz10", "xyz10.1", -1) /\ RT("xyz10.1", "xyz10", 1)
       /\ RT("xyz.4", "xyz.4", 0) /\ RT("xyz.4", "8", -1) /\ RT("8", "xyz.4", 1)
       /\ RT("xyz.4", "2", -1) /\ RT("2", "xyz.4", 1)
       /\ RT("5.5p2", "5.6p1", -1) /\ RT("5.6p1", "5.5p2", 1)
       /\ RT("5.6p1", "6.5p1", -1) /\ RT("6.5p1", "5.6p1", 1)
       /\ RT("6.0.rc1", "6.0", 1) /\ RT("6.0", "6.0.rc1", -1)
       /\ RT("10b2", "10a1", 1) /\ RT("10a2", "10b2", -1)
       /\ RT("1.0aa", "1.0aa", 0) /\ RT("1.0a", "1.0aa", -1) /\ RT("1.0aa", "1.0a", 1)
       /\ RT("10.0001", "10.0001", 0) /\ RT("10.0001", "10.1", 0) /\ RT("10.1", "10.0001", 0)
       /\ RT("10.0001", "10.0039", -1) /\ RT("10.0039", "10.0001", 1)
       /\ RT("4.999.9", "5.0", -1) /\ RT("5.0", "4.999.9", 1)
       /\ RT("20101121", "20101121", 0) /\ RT("20101121", "20101122", -1) /\ RT("20101122", "20101121", 1)
       /\ RT("2_0", "2_0", 0) /\ RT("2.0", "2_0", 0) /\ RT("2_0", "2.0", 0)
       /\ RT("a", "a", 0) /\ RT("a+", "a+", 0) /\ RT("a+", "a_", 0) /\ RT("a_", "a+", 0)
       /\ RT("+a", "+a", 0) /\ RT("+a", "_a", 0) /\ RT("_a", "+a", 0)
       /\ RT("+_", "+_", 0) /\ RT("_+", "+_", 0) /\ RT("_+", "_+", 0) /\ RT("+", "_", 0) /\ RT("_", "+", 0)
ASSUME /\ RT("1.0~rc1", "1.0~rc1", 0) /\ RT("1.0~rc1", "1.0", -1) /\ RT("1.0", "1.0~rc1", 1)
       /\ RT("1.0~rc1", "1.0~rc2", -1) /\ RT("1.0~rc2", "1.0~rc1", 1)
       /\ RT("1.0~rc1~git123", "1.0~rc1~git123", 0) /\ RT("1.0~rc1~git123", "1.0~rc1", -1)
       /\ RT("1.0~rc1", "1.0~rc1~git123", 1)
       /\ RT("1.0^", "1.0^", 0) /\ RT("1.0^", "1.0", 1) /\ RT("1.0", "1.0^", -1)
       /\ RT("1.0^git1", "1.0^git1", 0) /\ RT("1.0^git1", "1.0", 1) /\ RT("1.0", "1.0^git1", -1)
       /\ RT("1.0^git1", "1.0^git2", -1) /\ RT("1.0^git2", "1.0^git1", 1)
       /\ RT("1.0^git1", "1.01", -1) /\ RT("1.01", "1.0^git1", 1)
       /\ RT("1.0^20160101", "1.0^20160101", 0) /\ RT("1.0^20160101", "1.0.1", -1)
       /\ RT("1.0.1", "1.0^20160101", 1)
       /\ RT("1.0^20160101^git1", "1.0^20160101^git1", 0)
       /\ RT("1.0^20160102", "1.0^20160101^git1", 1) /\ RT("1.0^20160101^git1", "1.0^20160102", -1)
       /\ RT("1.0~rc1^git1", "1.0~rc1^git1", 0) /\ RT("1.0~rc1^git1", "1.0~rc1", 1)
       /\ RT("1.0~rc1", "1.0~rc1^git1", -1)
       /\ RT("1.0^git1~pre", "1.0^git1~pre", 0) /\ RT("1.0^git1", "1.0^git1~pre", 1)
       /\ RT("1.0^git1~pre", "1.0^git1", -1)
\* statements of the property
ASSUME RpmCmp(S2C("1.0a"), S2C("1.0.1")) = -1      \* numeric segment newer than alphabetic
ASSUME RpmCmp(S2C("1:0"), S2C("2")) = 1
ASSUME RpmCmp(S2C("1.0-1"), S2C("1.0")) = 1

-----------------------------------------------------------------------------
(* Implementation model: what pkg/ecosystem/rpm/version.go computes today     *)
(* (compareRPMVersionString).  Used only to recognise the recorded deviation  *)
(* KF-rpm-01: a mismatch is "known" iff this model predicts the observed sign.*)
ISep(c) == c \in {46, 43, 45, 94}                   \* . + - ^
INonDigCmp(a, b) ==
  LET at == a # <<>> /\ a[1] = 126   bt == b # <<>> /\ b[1] = 126 IN
  IF at /\ ~bt THEN -1 ELSE IF ~at /\ bt THEN 1 ELSE LexCmp(a, b)
IDigCmp(a, b) ==
  IF a = <<>> /\ b = <<>> THEN 0 ELSE IF a = <<>> THEN -1 ELSE IF b = <<>> THEN 1 ELSE NumCmp(a, b)
RECURSIVE IRvc(_, _, _, _)
IRvc(a, i0, b, j0) ==
  IF i0 > Len(a) /\ j0 > Len(b) THEN 0
  ELSE
  LET i1 == FirstNotAt(a, i0, ISep)
      j1 == FirstNotAt(b, j0, ISep)
      NonDig(c) == ~IsDigit(c) /\ ~ISep(c)
      i2 == FirstNotAt(a, i1, NonDig)
      j2 == FirstNotAt(b, j1, NonDig)
      c1 == INonDigCmp(SubSeq(a, i1, i2 - 1), SubSeq(b, j1, j2 - 1)) IN
  IF c1 # 0 THEN c1
  ELSE
  LET i3 == FirstNotAt(a, i2, IsDigit)
      j3 == FirstNotAt(b, j2, IsDigit)
      c2 == IDigCmp(SubSeq(a, i2, i3 - 1), SubSeq(b, j2, j3 - 1)) IN
  IF c2 # 0 THEN c2
  ELSE IF i3 = i0 /\ j3 = j0 THEN 0 ELSE IRvc(a, i3, b, j3)
RpmImplCmpKey(x, y) ==
  LET e == NumCmp(x.epoch, y.epoch) IN
  IF e # 0 THEN e
  ELSE LET v == IRvc(x.version, 1, y.version, 1) IN
       IF v # 0 THEN v ELSE IRvc(x.release, 1, y.release, 1)
RpmImplCmp(a, b) ==
  LET x == RSplit(a)  y == RSplit(b)
      e == NumCmp(x.epoch, y.epoch) IN
  IF e # 0 THEN e
  ELSE LET v == IRvc(x.version, 1, y.version, 1) IN
       IF v # 0 THEN v ELSE IRvc(x.release, 1, y.release, 1)
=============================================================================
