-------------------------------- MODULE CliSem ------------------------------
(***************************************************************************)
(* The CLI as a decision machine (C15): argv -> registry lookup -> command *)
(* -> arity -> parse -> operate -> render -> exit code.  The machine below *)
(* is explored by TLC over every argument-vector *shape*; the conformance  *)
(* run instantiates each shape with concrete arguments, executes the real  *)
(* binary and judges its stdout / exit status against Expect, given the    *)
(* library's own observation for the same arguments (logged in the event). *)
(***************************************************************************)
EXTENDS Chars

CliEcos == {"alpine", "alpm", "apache", "cargo", "composer", "conan", "cran", "debian", "gem", "gentoo",
            "github", "golang", "hex", "mattermost", "maven", "npm", "nuget", "pypi", "rpm", "semver"}
NameKinds == {"eco", "vers", "unknown", "absent"}
CmdKinds  == {"compare", "sort", "contains", "other", "absent"}

\* what a shape is classified as, stage by stage; the first failing stage decides
Stage(nameKind, cmdKind, nargs, parses) ==
  IF nameKind = "absent" THEN "usage"
  ELSE IF nameKind = "unknown" THEN "unknown-ecosystem"
  ELSE IF cmdKind = "absent" THEN "no-command"
  ELSE IF nameKind = "vers" /\ cmdKind # "contains" THEN "unknown-command"
  ELSE IF cmdKind = "other" THEN "unknown-command"
  ELSE IF cmdKind \in {"compare", "contains"} /\ nargs # 2 THEN "arity"
  ELSE IF cmdKind = "sort" /\ nargs < 1 THEN "arity"
  ELSE IF ~parses THEN "parse-failure"
  ELSE "result"
ExitOf(stage) == IF stage = "result" THEN 0 ELSE 1

-----------------------------------------------------------------------------
(* rendering of results, on code sequences *)
Digits(n) == IF n = 0 THEN <<48>> ELSE IF n = 1 THEN <<49>> ELSE <<45, 49>>      \* 0, 1, -1
BoolText(b) == IF b THEN S2C("true") ELSE S2C("false")
\* Go's %q for the characters claimed here: printable ASCII as is, with " and \ escaped, and \n \t \r
QuotableChar(c) == (c >= 32 /\ c <= 126) \/ c \in {10, 9, 13}
RECURSIVE QBody(_)
QBody(s) == IF s = <<>> THEN <<>>
            ELSE LET c == Head(s)
                     e == IF c = 34 THEN <<92, 34>> ELSE IF c = 92 THEN <<92, 92>> ELSE IF c = 10 THEN <<92, 110>>
                          ELSE IF c = 9 THEN <<92, 116>> ELSE IF c = 13 THEN <<92, 114>> ELSE <<c>> IN
                 e \o QBody(Tail(s))
GoQuote(s) == <<34>> \o QBody(s) \o <<34>>
Quotable(s) == \A i \in 1..Len(s) : QuotableChar(s[i])
RECURSIVE JoinSp(_)
JoinSp(q) == IF q = <<>> THEN <<>> ELSE IF Len(q) = 1 THEN q[1] ELSE q[1] \o <<32>> \o JoinSp(Tail(q))

\* classification of a concrete argv (code sequences)
NameKindOf(argv) == IF Len(argv) = 0 THEN "absent"
                    ELSE IF argv[1] = S2C("vers") THEN "vers"
                    ELSE IF \E e \in CliEcos : argv[1] = S2C(e) THEN "eco" ELSE "unknown"
CmdKindOf(argv) == IF Len(argv) < 2 THEN "absent"
                   ELSE IF argv[2] = S2C("compare") THEN "compare" ELSE IF argv[2] = S2C("sort") THEN "sort"
                   ELSE IF argv[2] = S2C("contains") THEN "contains" ELSE "other"

\* a line that is a result rendering (what a diagnostic must not be)
IsResultLine(out) == out \in {S2C("-1") \o <<10>>, S2C("0") \o <<10>>, S2C("1") \o <<10>>, S2C("true") \o <<10>>, S2C("false") \o <<10>>}
                     \/ (out # <<>> /\ out[1] = 34)
Lines(out) == Cardinality({i \in 1..Len(out) : out[i] = 10})
ContainsSub(hay, needle) == \E i \in 1..(Len(hay) - Len(needle) + 1) : SubSeq(hay, i, i + Len(needle) - 1) = needle
=============================================================================
