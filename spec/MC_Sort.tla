------------------------------- MODULE MC_Sort -------------------------------
EXTENDS Sort, Json
\* oracles: a total preorder with ties (ranks 1,1,2,3,3) and a 3-cycle on items 1,2,3
Sgn(n) == IF n < 0 THEN -1 ELSE IF n > 0 THEN 1 ELSE 0
RankOf == <<1, 1, 2, 3, 3, 4>>
PreorderOracle == [i \in 1..N |-> [j \in 1..N |-> Sgn(RankOf[i] - RankOf[j])]]
CycleOracle == [i \in 1..N |-> [j \in 1..N |->
                  IF i = j THEN 0
                  ELSE IF <<i, j>> \in {<<1, 2>>, <<2, 3>>, <<3, 1>>} THEN -1
                  ELSE IF <<j, i>> \in {<<1, 2>>, <<2, 3>>, <<3, 1>>} THEN 1
                  ELSE Sgn(i - j)]]
\* all permutations of 1..N as vectors (the harness maps indices to concrete versions)
EmitPerm == (k = 1) => PrintT(<<"VEC", ToJson([n |-> N, perm |-> input])>>)
=============================================================================
