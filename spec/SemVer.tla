------------------------------- MODULE SemVer -------------------------------
(***************************************************************************)
(* Reference order of the SemVer family (semver, npm, cargo, hex, golang,  *)
(* nuget): Semantic Versioning 2.0.0 section 11 precedence and the section *)
(* 2/9/10 grammar, on code sequences.  Audited against node-semver 7.6.2   *)
(* and golang.org/x/mod/semver (vcheck audit C08).                         *)
(***************************************************************************)
EXTENDS Chars

\* text -> [core |-> <<digit seqs>>, pre |-> <<identifier codes>>, hasPre, build]
\* An optional leading "v" is dropped (the ecosystems that accept it treat it as noise).
SvParse(s0) ==
  LET s    == IF s0 # <<>> /\ s0[1] \in {118, 86} THEN Tail(s0) ELSE s0
      p    == IndexOf(s, 43)                                       \* '+'
      nb   == IF p = 0 THEN s ELSE SubSeq(s, 1, p - 1)
      d    == IndexOf(nb, 45)                                      \* first '-'
      core == IF d = 0 THEN nb ELSE SubSeq(nb, 1, d - 1)
      pre  == IF d = 0 THEN <<>> ELSE SubSeq(nb, d + 1, Len(nb)) IN
  [ core   |-> SplitAt(core, 46),
    hasPre |-> d # 0,
    pre    |-> IF d = 0 THEN <<>> ELSE SplitAt(pre, 46),
    hasBuild |-> p # 0,
    build  |-> IF p = 0 THEN <<>> ELSE SplitAt(SubSeq(s, p + 1, Len(s)), 46) ]

\* identifiers: all-digit ones compare as integers and are lower than alphanumeric ones,
\* alphanumeric ones compare in ASCII order
SvIdCmp(a, b) ==
  IF AllDigits(a) /\ AllDigits(b) THEN NumCmp(a, b)
  ELSE IF AllDigits(a) THEN -1
  ELSE IF AllDigits(b) THEN 1
  ELSE LexCmp(a, b)

\* missing core components count as 0 (nuget 1-4 components)
CoreAt(k, i) == IF i <= Len(k.core) THEN k.core[i] ELSE <<48>>
SvCmpKey(x, y) ==
  LET n == Max2(Len(x.core), Len(y.core))
      D == {i \in 1..n : NumCmp(CoreAt(x, i), CoreAt(y, i)) # 0} IN
  IF D # {} THEN NumCmp(CoreAt(x, MinOf(D)), CoreAt(y, MinOf(D)))
  ELSE IF ~x.hasPre /\ ~y.hasPre THEN 0
  ELSE IF ~x.hasPre THEN 1
  ELSE IF ~y.hasPre THEN -1
  ELSE SeqCmp(x.pre, y.pre, SvIdCmp)            \* a longer list wins on an equal prefix
SvCmp(a, b) == SvCmpKey(SvParse(a), SvParse(b))

\* --- grammar ---------------------------------------------------------------
IdChar(c) == IsAlnum(c) \/ c = 45
NumericId(d) == d # <<>> /\ AllDigits(d) /\ (Len(d) = 1 \/ d[1] # 48)          \* no leading zeros
PreId(d)   == d # <<>> /\ (\A i \in 1..Len(d) : IdChar(d[i])) /\ (AllDigits(d) => NumericId(d))
BuildId(d) == d # <<>> /\ (\A i \in 1..Len(d) : IdChar(d[i]))

\* what SemVer 2.0.0 itself accepts (no "v", exactly three numeric components)
SvStrictValid(s) ==
  LET k == SvParse(s) IN
  /\ (s = <<>> \/ s[1] \notin {118, 86})
  /\ Len(k.core) = 3 /\ \A i \in 1..3 : NumericId(k.core[i])
  /\ (k.hasPre => \A i \in 1..Len(k.pre) : PreId(k.pre[i]))
  /\ (k.hasBuild => \A i \in 1..Len(k.build) : BuildId(k.build[i]))

\* the quantifier of C08 per ecosystem: the SemVer shape as that ecosystem spells it.  Numeric core
\* components may carry leading zeros where the parser takes them (they compare as integers); all-digit
\* pre-release identifiers with leading zeros have no SemVer meaning and are not claimed; nuget
\* identifiers are kept single-case.
SvInScope(eco, s) ==
  LET k == SvParse(s)
      v == s # <<>> /\ s[1] \in {118, 86} IN
  /\ (v => eco \in {"npm", "golang", "nuget"})
  /\ \A i \in 1..Len(k.core) : k.core[i] # <<>> /\ AllDigits(k.core[i])
  /\ (IF eco = "nuget" THEN Len(k.core) \in 1..4 ELSE Len(k.core) = 3)
  /\ (k.hasPre => \A i \in 1..Len(k.pre) : PreId(k.pre[i]))
  /\ (k.hasBuild => \A i \in 1..Len(k.build) : BuildId(k.build[i]))
  /\ (eco = "nuget" => \A i \in 1..Len(k.pre) : \A j \in 1..Len(k.pre[i]) : ~IsUpper(k.pre[i][j]))

\* the SemVer.org chain and the statements of the property
ST(a, b, r) == SvCmp(S2C(a), S2C(b)) = r
ASSUME /\ ST("1.0.0-alpha", "1.0.0-alpha.1", -1) /\ ST("1.0.0-alpha.1", "1.0.0-alpha.beta", -1)
       /\ ST("1.0.0-alpha.beta", "1.0.0-beta", -1) /\ ST("1.0.0-beta", "1.0.0-beta.2", -1)
       /\ ST("1.0.0-beta.2", "1.0.0-beta.11", -1) /\ ST("1.0.0-beta.11", "1.0.0-rc.1", -1)
       /\ ST("1.0.0-rc.1", "1.0.0", -1) /\ ST("1.0.0", "2.0.0", -1) /\ ST("2.0.0", "2.1.0", -1) /\ ST("2.1.0", "2.1.1", -1)
       /\ ST("1.0.0+a", "1.0.0+b", 0) /\ ST("1.0.0-rc.10", "1.0.0-rc.2", 1) /\ ST("1.0.0--5", "1.0.0-5", 1)
       /\ ST("1.0.0-A", "1.0.0-a", -1) /\ ST("v1.2.4-0.20200101000000-abcdef012345", "v1.2.4-0", 1)
       /\ ST("v1.2.4-0.20200101000000-abcdef012345", "v1.2.3", 1) /\ ST("v1.2.4-0.20200101000000-abcdef012345", "v1.2.4", -1)
       /\ ST("v2.0.0-20200101000000-abcdef012345", "v2.0.0-20200102000000-0123456789ab", -1)
ASSUME /\ SvStrictValid(S2C("1.0.0-0.3.7")) /\ SvStrictValid(S2C("1.0.0-x-y-z.--")) /\ SvStrictValid(S2C("1.0.0+001"))
       /\ ~SvStrictValid(S2C("01.0.0")) /\ ~SvStrictValid(S2C("1.0.0-01")) /\ ~SvStrictValid(S2C("1.0"))
       /\ ~SvStrictValid(S2C("1.0.0-")) /\ ~SvStrictValid(S2C("1.0.0-a..b")) /\ ~SvStrictValid(S2C("v1.0.0"))
       /\ ~SvStrictValid(S2C("1.0.0+")) /\ SvStrictValid(S2C("1.0.0-0a")) /\ SvStrictValid(S2C("1.0.0--"))
=============================================================================
