------------------------------- MODULE Tokens -------------------------------
(***************************************************************************)
(* Small-scope universes: for every ecosystem a token alphabet (numbers,   *)
(* separators, the qualifier / suffix keywords its parser knows, a few it  *)
(* does not know) and a set of stems; the machine appends one token per    *)
(* step, so its states are ALL token sequences of length <= TL after a     *)
(* stem - not the shapes a grammar author thought of.  The real parser     *)
(* decides which of them are versions; the accepted ones form one more     *)
(* universe for C01 (total preorder on the whole set), the reference       *)
(* orders C08-C14 and the pools of C07 / C18 / C20.                        *)
(* (Universe.tla is shaped by the grammars and reaches long, rich members; *)
(* this module is exhaustive and shapeless but short: the two complement   *)
(* each other.)                                                            *)
(***************************************************************************)
EXTENDS Integers, Sequences, FiniteSets, TLC

CONSTANTS TE,     \* ecosystems to explore
          TL,     \* maximum number of appended tokens
          TMode   \* "v": version texts (stems + version tokens)   "r": range texts (no stem, range tokens)

\* range tokens: a common core (comparators, star, numbers incl. 2^63-1, blanks, separators) plus what each
\* ecosystem's range grammar knows (shorthand operators, brackets, keywords, stability flags, wildcards)
RCore == <<">=", "<", "=", "!=", "*", "1", "1.0.0", "0", " ", ",", "-", ".", "9223372036854775807", "v">>
RExtra(e) ==
  CASE e = "npm"      -> <<"^", "~", "||", " - ", "x", "<=", ">">>
    [] e = "cargo"    -> <<"^", "~", ".*", "<=", ">">>
    [] e = "composer" -> <<"^", "~", "||", "|", " - ", ".*", "@", "@dev", "dev", "stable", "<>", "-dev">>
    [] e = "conan"    -> <<"^", "~", "||", "<=", ">", "[", "]">>
    [] e = "pypi"     -> <<"~=", "==", "===", ".*", "<=", ">", "!", "a1", ".post1">>
    [] e = "gem"      -> <<"~>", "<=", ">", ".rc1">>
    [] e = "hex"      -> <<"~>", "and", "or", "==", "<=", ">">>
    [] e \in {"maven", "nuget"} -> <<"[", "]", "(", ")", "<=", ">">>
    [] e \in {"debian", "rpm", "alpm"} -> <<"<<", ">>", "<=", ">", ":", "~", "and">>
    [] e \in {"alpine", "gentoo"} -> <<"<=", ">", "_rc1", "-r1", "~">>
    [] e = "golang"   -> <<"<=", ">", "v1.0.0", "-0.20200101000000-abcdef012345">>
    [] OTHER          -> <<"<=", ">", "~", "^", "||">>
SemverToks == <<"0", "1", "10", "01", ".", "-", "+", "a", "A", "rc", "x">>
VAlphabet(e) ==
  CASE e \in {"semver", "npm", "cargo", "hex", "nuget"} -> SemverToks
    [] e = "golang"  -> <<"0", "1", "10", ".", "-", "+", "a", "rc", "pre", "20200101000000", "abcdef012345", "incompatible">>
    [] e = "pypi"    -> <<"0", "1", "10", ".", "a", "b", "c", "rc", "alpha", "post", "rev", "r", "dev", "+", "!", "-", "_", "x">>
    [] e = "debian"  -> <<"0", "1", "10", "00", "a", "Z", ".", "+", "~", "-", ":">>
    [] e = "rpm"     -> <<"0", "1", "10", "00", "a", "Z", ".", "_", "+", "~", "^", "-", ":">>
    [] e = "alpm"    -> <<"0", "1", "10", "00", "a", "Z", ".", "_", "+", "-", ":">>
    [] e = "maven"   -> <<"0", "1", "10", ".", "-", "alpha", "a", "b", "m", "rc", "cr", "snapshot", "ga", "final", "sp", "x", "RC">>
    [] e = "gem"     -> <<"0", "1", "10", "00", ".", "-", "a", "rc", "pre", "b", "x">>
    [] e = "alpine"  -> <<"0", "1", "10", ".", "a", "z", "_alpha", "_beta", "_pre", "_rc", "_cvs", "_p", "_x", "-r", "_">>
    [] e = "gentoo"  -> <<"0", "1", "10", "00", ".", "a", "z", "_alpha", "_beta", "_pre", "_rc", "_p", "-r", "_">>
    [] e = "conan"   -> <<"0", "1", "10", "00", ".", "-", "+", "a", "B", "alpha", "x">>
    [] e = "composer"-> <<"0", "1", "10", ".", "-", "+", "alpha", "beta", "RC", "rc", "dev", "p", "pl", "patch", "stable", "x", "@">>
    [] e = "cran"    -> <<"0", "1", "10", "00", ".", "-", "a">>
    [] e = "apache"  -> <<"0", "1", "10", ".", "-", "M", "RC", "alpha", "beta", "rc", "x", "v20200101">>
    [] e = "github"  -> <<"0", "1", "10", "2024", ".", "-", "alpha", "beta", "rc", "x">>
    [] e = "mattermost" -> <<"0", "1", "10", ".", "-", "rc", "esr", "x">>
Alphabet(e) == IF TMode = "r" THEN RCore \o RExtra(e) ELSE VAlphabet(e)
VStems(e) ==
  CASE e \in {"semver", "cargo", "hex"} -> {"1.0.0", "1.0.0-", "1.0.0-a.", "1.0."}
    [] e \in {"npm", "nuget"} -> {"1.0.0", "1.0.0-", "v1.0.", "1.0.0-a.", "=1.0.0"}
    [] e = "golang"  -> {"v1.0.0", "v1.0.0-", "1.0.0-0.", "v1.0.1-0."}
    [] e = "pypi"    -> {"1", "1.0", "1!1"}
    [] e \in {"debian", "rpm", "alpm"} -> {"1", "1.0-", "0:1"}
    [] e = "maven"   -> {"1", "1.0-", "1.0."}
    [] e = "gem"     -> {"1", "1.0.", "v1"}
    [] e \in {"alpine", "gentoo"} -> {"1", "1.0", "1.0_rc"}
    [] e = "conan"   -> {"1", "1.0.", "1.0-"}
    [] e = "composer"-> {"1", "1.0-", "v1.0.", "dev-"}
    [] e = "cran"    -> {"1.", "1-0", "1.0."}
    [] e = "apache"  -> {"1.0.", "1.0.0", "1.0.0-"}
    [] e = "github"  -> {"1.0.", "v1.0.0", "v1.0.0-", "release-1.0."}
    [] e = "mattermost" -> {"1.0.", "v1.0.0", "1.0.0-"}

Stems(e) == IF TMode = "r" THEN {""} ELSE VStems(e)

VARIABLES teco, ttext, tlen
tvars == <<teco, ttext, tlen>>
TkInit == /\ teco \in TE
          /\ ttext \in Stems(teco)
          /\ tlen = 0
TkNext == /\ tlen < TL
          /\ \E i \in 1..Len(Alphabet(teco)) : ttext' = ttext \o Alphabet(teco)[i]
          /\ tlen' = tlen + 1
          /\ UNCHANGED teco
TkSpec == TkInit /\ [][TkNext]_tvars

\* design-level sanity: the machine reaches exactly sum_{k<=TL} |Alphabet|^k sequences per stem (checked by the
\* runner from TLC's distinct-state count); every alphabet holds a digit and a separator
AlphabetsSane == \A e \in TE : \E i \in 1..Len(Alphabet(e)) : Alphabet(e)[i] = "1"
ASSUME AlphabetsSane
=============================================================================
