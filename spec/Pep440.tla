------------------------------- MODULE Pep440 -------------------------------
(***************************************************************************)
(* Reference order of PyPI versions: PEP 440 as implemented by the         *)
(* `packaging` library (packaging.version._cmpkey), on code sequences, for *)
(* the grammar the pypi ecosystem accepts:                                 *)
(*   [N!]N(.N)*[[.]{a|b|rc|alpha|beta|c}N][[.]{post|rev|r}N][[.]devN][+local]*)
(* Audited against packaging 26.3 (vcheck audit C09).                      *)
(***************************************************************************)
EXTENDS Chars

StartsWithAt(t, i, w) == i + Len(w) - 1 <= Len(t) /\ SubSeq(t, i, i + Len(w) - 1) = w

\* try to read "[.]<word><digits>" at position i of t for one of the words; result
\* [ok, word index, num, next]
PSeg(t, i, words) ==
  LET j  == IF i <= Len(t) /\ t[i] = 46 THEN i + 1 ELSE i
      ok(k) == /\ StartsWithAt(t, j, words[k])
               /\ j + Len(words[k]) <= Len(t) /\ IsDigit(t[j + Len(words[k])])
      K  == {k \in 1..Len(words) : ok(k)} IN
  IF K = {} THEN [ok |-> FALSE, w |-> 0, n |-> <<>>, next |-> i]
  ELSE LET k == MinOf(K)
           s == j + Len(words[k])
           e == FirstNotAt(t, s, IsDigit) IN
       [ok |-> TRUE, w |-> k, n |-> SubSeq(t, s, e - 1), next |-> e]

PreWords  == <<S2C("alpha"), S2C("beta"), S2C("rc"), S2C("a"), S2C("b"), S2C("c")>>
PrePhase  == <<0, 1, 2, 0, 1, 2>>                      \* a < b < rc
PostWords == <<S2C("post"), S2C("rev"), S2C("r")>>
DevWords  == <<S2C("dev")>>

RECURSIVE PRelEnd(_, _)
PRelEnd(t, i) ==        \* t[i] is a digit: end of N(.N)*
  LET e == FirstNotAt(t, i, IsDigit) IN
  IF e + 1 <= Len(t) /\ t[e] = 46 /\ IsDigit(t[e + 1]) THEN PRelEnd(t, e + 1) ELSE e

PParse(s) ==
  LET bang  == IndexOf(s, 33)
      epoch == IF bang = 0 THEN <<>> ELSE SubSeq(s, 1, bang - 1)
      r1    == IF bang = 0 THEN s ELSE SubSeq(s, bang + 1, Len(s))
      plus  == IndexOf(r1, 43)
      main  == IF plus = 0 THEN r1 ELSE SubSeq(r1, 1, plus - 1)
      local == IF plus = 0 THEN <<>> ELSE SubSeq(r1, plus + 1, Len(r1))
      okrel == main # <<>> /\ IsDigit(main[1])
      re    == IF okrel THEN PRelEnd(main, 1) ELSE 1
      pre   == PSeg(main, re, PreWords)
      post  == PSeg(main, pre.next, PostWords)
      dev   == PSeg(main, post.next, DevWords) IN
  [ valid   |-> okrel /\ dev.next = Len(main) + 1 /\ AllDigits(epoch) /\ (bang # 0 => epoch # <<>>),
    epoch   |-> epoch,
    release |-> IF okrel THEN SplitAt(SubSeq(main, 1, re - 1), 46) ELSE <<>>,
    hasPre  |-> pre.ok,  prePhase |-> IF pre.ok THEN PrePhase[pre.w] ELSE 0,  preN |-> pre.n,
    hasPost |-> post.ok, postN |-> post.n,
    hasDev  |-> dev.ok,  devN |-> dev.n,
    hasLocal |-> plus # 0,
    local   |-> IF plus = 0 THEN <<>> ELSE local ]

\* release without trailing zero components
RECURSIVE DropTrailingZeros(_)
DropTrailingZeros(r) ==
  IF r # <<>> /\ StripZ(r[Len(r)]) = <<>> THEN DropTrailingZeros(SubSeq(r, 1, Len(r) - 1)) ELSE r

\* local label: segments split at . - _ ; numeric segments above alphabetic ones
LocSep(c) == c \in {46, 45, 95}
RECURSIVE LocalSegs(_)
LocalSegs(l) ==
  IF l = <<>> THEN <<>>
  ELSE LET e == FirstAt(l, 1, LocSep) IN
       <<LowerSeq(SubSeq(l, 1, e - 1))>> \o (IF e > Len(l) THEN <<>> ELSE LocalSegs(SubSeq(l, e + 1, Len(l))))
LocSegCmp(a, b) ==
  IF AllDigits(a) /\ AllDigits(b) THEN NumCmp(a, b)
  ELSE IF AllDigits(a) THEN 1 ELSE IF AllDigits(b) THEN -1 ELSE LexCmp(a, b)

\* the sort key of packaging._cmpkey, with -1 / 0 / 1 tagging -infinity / value / +infinity
PKey(s) ==
  LET p == PParse(s) IN
  [ valid   |-> p.valid,
    epoch   |-> p.epoch,
    release |-> DropTrailingZeros(p.release),
    preTag  |-> IF ~p.hasPre /\ ~p.hasPost /\ p.hasDev THEN -1 ELSE IF ~p.hasPre THEN 1 ELSE 0,
    prePhase |-> p.prePhase, preN |-> p.preN,
    postTag |-> IF p.hasPost THEN 0 ELSE -1, postN |-> p.postN,
    devTag  |-> IF p.hasDev THEN 0 ELSE 1, devN |-> p.devN,
    locTag  |-> IF p.hasLocal THEN 0 ELSE -1, local |-> LocalSegs(p.local) ]

TagCmp(ta, tb, inner) == IF ta # tb THEN Sign(ta - tb) ELSE IF ta # 0 THEN 0 ELSE inner
PCmpKeyL(x, y, useLocal) ==
  LET c1 == NumCmp(x.epoch, y.epoch)
      c2 == SeqCmp(x.release, y.release, NumCmp)
      c3 == TagCmp(x.preTag, y.preTag,
                   IF x.prePhase # y.prePhase THEN Sign(x.prePhase - y.prePhase) ELSE NumCmp(x.preN, y.preN))
      c4 == TagCmp(x.postTag, y.postTag, NumCmp(x.postN, y.postN))
      c5 == TagCmp(x.devTag, y.devTag, NumCmp(x.devN, y.devN))
      c6 == TagCmp(x.locTag, y.locTag, SeqCmp(x.local, y.local, LocSegCmp)) IN
  IF c1 # 0 THEN c1 ELSE IF c2 # 0 THEN c2 ELSE IF c3 # 0 THEN c3
  ELSE IF c4 # 0 THEN c4 ELSE IF c5 # 0 THEN c5 ELSE IF useLocal THEN c6 ELSE 0
PCmpKey(x, y) == PCmpKeyL(x, y, TRUE)
\* implementation model of the recorded deviation KF-pypi-01: the local label is ignored
PepImplCmp(a, b) == PCmpKeyL(PKey(a), PKey(b), FALSE)
PHasLocal(s) == IndexOf(s, 43) # 0
PepCmp(a, b) == PCmpKey(PKey(a), PKey(b))
PInScope(s) == PParse(s).valid
\* PEP 440 is_prerelease: a pre-release or a development release (a post-release or a local label alone is not)
PIsPre(s) == LET q == PParse(s) IN q.valid /\ (q.hasPre \/ q.hasDev)

PT(a, b, r) == PepCmp(S2C(a), S2C(b)) = r
ASSUME /\ PT("1.0.dev1", "1.0a1", -1) /\ PT("1.0a1", "1.0b1", -1) /\ PT("1.0b1", "1.0rc1", -1) /\ PT("1.0rc1", "1.0", -1)
       /\ PT("1.0", "1.0.post1", -1) /\ PT("1.0a1.dev1", "1.0a1", -1) /\ PT("1.0.dev1", "1.0a1.dev1", -1)
       /\ PT("1.0.post1.dev1", "1.0.post1", -1) /\ PT("1.0", "1.0.post1.dev1", -1)
       /\ PT("1.0", "1.0+abc", -1) /\ PT("1.0+abc", "1.0+1", -1) /\ PT("1.0+abc", "1.0+abc.1", -1)
       /\ PT("1.0", "1.0.0", 0) /\ PT("1!0.1", "2.0", 1) /\ PT("1.0c1", "1.0rc1", 0) /\ PT("1.0alpha1", "1.0a1", 0)
       /\ PT("1.0.rev1", "1.0.post1", 0) /\ PT("1.0r1", "1.0.post1", 0) /\ PT("1.10", "1.9", 1)
       /\ PT("1.0+ABC", "1.0+abc", 0) /\ PT("1.0+1.0", "1.0+1", 1)
=============================================================================
