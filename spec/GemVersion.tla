----------------------------- MODULE GemVersion -----------------------------
(***************************************************************************)
(* Reference order of RubyGems versions: Gem::Version (rubygems/version.rb *)
(* of RubyGems 3.x): '-' means ".pre.", segments are the maximal digit and *)
(* letter runs, canonical segments drop trailing zeros of the numeric      *)
(* prefix and of the tail, and <=> compares position by position.          *)
(* No ruby on this image: the audit is RubyGems' own test chains below.    *)
(***************************************************************************)
EXTENDS Chars

\* replace every '-' by ".pre."
RECURSIVE GDash(_)
GDash(s) == IF s = <<>> THEN <<>>
            ELSE IF Head(s) = 45 THEN S2C(".pre.") \o GDash(Tail(s)) ELSE <<Head(s)>> \o GDash(Tail(s))

\* scan(/[0-9]+|[a-z]+/i): records [n |-> TRUE, v |-> digits] or [n |-> FALSE, v |-> letters]
RECURSIVE GScan(_, _)
GScan(s, i) ==
  IF i > Len(s) THEN <<>>
  ELSE IF IsDigit(s[i]) THEN LET e == FirstNotAt(s, i, IsDigit) IN <<[n |-> TRUE, v |-> SubSeq(s, i, e - 1)]>> \o GScan(s, e)
  ELSE IF IsAlpha(s[i]) THEN LET e == FirstNotAt(s, i, IsAlpha) IN <<[n |-> FALSE, v |-> SubSeq(s, i, e - 1)]>> \o GScan(s, e)
  ELSE GScan(s, i + 1)

GIsZero(seg) == seg.n /\ StripZ(seg.v) = <<>>
RECURSIVE GDropZeros(_)
GDropZeros(q) == IF q # <<>> /\ GIsZero(q[Len(q)]) THEN GDropZeros(SubSeq(q, 1, Len(q) - 1)) ELSE q

GCanonical(s) ==
  LET segs == GScan(GDash(s), 1)
      S    == {i \in 1..Len(segs) : ~segs[i].n}
      k    == IF S = {} THEN Len(segs) + 1 ELSE MinOf(S) IN
  GDropZeros(SubSeq(segs, 1, k - 1)) \o GDropZeros(SubSeq(segs, k, Len(segs)))

GZero == [n |-> TRUE, v |-> <<48>>]
GSegCmp(a, b) ==
  IF a.n /\ b.n THEN NumCmp(a.v, b.v)
  ELSE IF ~a.n /\ b.n THEN -1
  ELSE IF a.n /\ ~b.n THEN 1
  ELSE LexCmp(a.v, b.v)
GCmpKey(x, y) ==
  LET n == Max2(Len(x), Len(y))
      at(q, i) == IF i <= Len(q) THEN q[i] ELSE GZero
      D == {i \in 1..n : GSegCmp(at(x, i), at(y, i)) # 0} IN
  IF D = {} THEN 0 ELSE GSegCmp(at(x, MinOf(D)), at(y, MinOf(D)))
GemCmp(a, b) == GCmpKey(GCanonical(a), GCanonical(b))

\* RubyGems' own pattern: [0-9]+(\.[0-9a-zA-Z]+)*(-[0-9A-Za-z-]+(\.[0-9A-Za-z-]+)*)?   and a single letter case
GInScope(s) ==
  LET d    == IndexOf(s, 45)
      main == IF d = 0 THEN s ELSE SubSeq(s, 1, d - 1)
      pre  == IF d = 0 THEN <<>> ELSE SubSeq(s, d + 1, Len(s))
      mp   == SplitAt(main, 46)
      pp   == SplitAt(pre, 46) IN
  /\ s # <<>> /\ \A i \in 1..Len(s) : ~IsUpper(s[i])
  /\ mp[1] # <<>> /\ AllDigits(mp[1])
  /\ \A i \in 2..Len(mp) : mp[i] # <<>> /\ \A j \in 1..Len(mp[i]) : IsAlnum(mp[i][j])
  /\ (d # 0 => \A i \in 1..Len(pp) : pp[i] # <<>> /\ \A j \in 1..Len(pp[i]) : (IsAlnum(pp[i][j]) \/ pp[i][j] = 45))

\* RubyGems test_gem_version.rb (test_spaceship, test_prerelease, test_canonical...) and the property's statements
GT(a, b, r) == GemCmp(S2C(a), S2C(b)) = r
ASSUME /\ GT("1.0", "1.0.0", 0) /\ GT("1.0", "1.0.a", 1) /\ GT("1.8.2", "0.0.0", 1) /\ GT("1.8.2", "1.8.2.a", 1)
       /\ GT("1.8.2.b", "1.8.2.a", 1) /\ GT("1.8.2.a", "1.8.2", -1) /\ GT("1.8.2.a10", "1.8.2.a9", 1)
       /\ GT("", "0", 0) /\ GT("0.beta.1", "0.0.beta.1", 0) /\ GT("0.0.beta", "0.0.beta.1", -1) /\ GT("0.0.beta", "0.beta.1", -1)
       /\ GT("5.a", "5.0.0.rc2", -1) /\ GT("5.x", "5.0.0.rc2", 1)
       /\ GT("2.0.0.rc1", "2.0.0", -1) /\ GT("1.0.0-alpha", "1.0.0", -1) /\ GT("1.0.0-alpha", "1.0.0.pre.alpha", 0)
       /\ GT("1.0.0.beta.2", "1.0.0.beta.10", -1) /\ GT("1.2.3.a4", "1.2.3", -1) /\ GT("1.2.3.a4", "1.2.3.a.4", 0)
       /\ GT("1.9.3", "1.10", -1) /\ GT("1.0.0.rc1", "1.0.0.rc.1", 0) /\ GT("1.0.0-1", "1.0.0", -1)
=============================================================================
