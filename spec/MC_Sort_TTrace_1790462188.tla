---- MODULE MC_Sort_TTrace_1790462188 ----
EXTENDS MC_Sort, Sequences, TLCExt, Toolbox, Naturals, TLC

_expression ==
    LET MC_Sort_TEExpression == INSTANCE MC_Sort_TEExpression
    IN MC_Sort_TEExpression!expression
----

_trace ==
    LET MC_Sort_TETrace == INSTANCE MC_Sort_TETrace
    IN MC_Sort_TETrace!trace
----

_inv ==
    ~(
        TLCGet("level") = Len(_TETrace)
        /\
        input = (<<1, 2, 3, 4>>)
        /\
        k = (5)
        /\
        out = (<<3, 1, 2, 4>>)
    )
----

_init ==
    /\ input = _TETrace[1].input
    /\ out = _TETrace[1].out
    /\ k = _TETrace[1].k
----

_next ==
    /\ \E i,j \in DOMAIN _TETrace:
        /\ \/ /\ j = i + 1
              /\ i = TLCGet("level")
        /\ input  = _TETrace[i].input
        /\ input' = _TETrace[j].input
        /\ out  = _TETrace[i].out
        /\ out' = _TETrace[j].out
        /\ k  = _TETrace[i].k
        /\ k' = _TETrace[j].k

\* Uncomment the ASSUME below to write the states of the error trace
\* to the given file in Json format. Note that you can pass any tuple
\* to `JsonSerialize`. For example, a sub-sequence of _TETrace.
    \* ASSUME
    \*     LET J == INSTANCE Json
    \*         IN J!JsonSerialize("MC_Sort_TTrace_1790462188.json", _TETrace)

=============================================================================

 Note that you can extract this module `MC_Sort_TEExpression`
  to a dedicated file to reuse `expression` (the module in the 
  dedicated `MC_Sort_TEExpression.tla` file takes precedence 
  over the module `MC_Sort_TEExpression` below).

---- MODULE MC_Sort_TEExpression ----
EXTENDS MC_Sort, Sequences, TLCExt, Toolbox, Naturals, TLC

expression == 
    [
        \* To hide variables of the `MC_Sort` spec from the error trace,
        \* remove the variables below.  The trace will be written in the order
        \* of the fields of this record.
        input |-> input
        ,out |-> out
        ,k |-> k
        
        \* Put additional constant-, state-, and action-level expressions here:
        \* ,_stateNumber |-> _TEPosition
        \* ,_inputUnchanged |-> input = input'
        
        \* Format the `input` variable as Json value.
        \* ,_inputJson |->
        \*     LET J == INSTANCE Json
        \*     IN J!ToJson(input)
        
        \* Lastly, you may build expressions over arbitrary sets of states by
        \* leveraging the _TETrace operator.  For example, this is how to
        \* count the number of times a spec variable changed up to the current
        \* state in the trace.
        \* ,_inputModCount |->
        \*     LET F[s \in DOMAIN _TETrace] ==
        \*         IF s = 1 THEN 0
        \*         ELSE IF _TETrace[s].input # _TETrace[s-1].input
        \*             THEN 1 + F[s-1] ELSE F[s-1]
        \*     IN F[_TEPosition - 1]
    ]

=============================================================================



Parsing and semantic processing can take forever if the trace below is long.
 In this case, it is advised to uncomment the module below to deserialize the
 trace from a generated binary file.

\*
\*---- MODULE MC_Sort_TETrace ----
\*EXTENDS MC_Sort, IOUtils, TLC
\*
\*trace == IODeserialize("MC_Sort_TTrace_1790462188.bin", TRUE)
\*
\*=============================================================================
\*

---- MODULE MC_Sort_TETrace ----
EXTENDS MC_Sort, TLC

trace == 
    <<
    ([input |-> <<1, 2, 3, 4>>,k |-> 1,out |-> <<>>]),
    ([input |-> <<1, 2, 3, 4>>,k |-> 2,out |-> <<1>>]),
    ([input |-> <<1, 2, 3, 4>>,k |-> 3,out |-> <<1, 2>>]),
    ([input |-> <<1, 2, 3, 4>>,k |-> 4,out |-> <<3, 1, 2>>]),
    ([input |-> <<1, 2, 3, 4>>,k |-> 5,out |-> <<3, 1, 2, 4>>])
    >>
----


=============================================================================

---- CONFIG MC_Sort_TTrace_1790462188 ----
CONSTANTS
    N = 4
    O <- CycleOracle

INVARIANT
    _inv

CHECK_DEADLOCK
    \* CHECK_DEADLOCK off because of PROPERTY or INVARIANT above.
    FALSE

INIT
    _init

NEXT
    _next

CONSTANT
    _TETrace <- _trace

ALIAS
    _expression
=============================================================================
\* Generated on Sat Sep 26 22:36:29 UTC 2026