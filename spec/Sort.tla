-------------------------------- MODULE Sort --------------------------------
(***************************************************************************)
(* C07: sorting with an ecosystem's comparison.  An abstract comparison    *)
(* sort (insertion sort: the shape of any correct comparison sort is       *)
(* irrelevant, only the oracle matters) is driven by an oracle matrix O    *)
(* over N items and explored by TLC for every input order.  With a total-  *)
(* preorder oracle the output is always non-decreasing and its sequence of *)
(* equivalence classes does not depend on the input order; with a cyclic   *)
(* oracle TLC finds the counterexample - C07 is exactly where C01's        *)
(* failures become visible to a user.                                      *)
(***************************************************************************)
EXTENDS Integers, Sequences, FiniteSets, TLC

CONSTANTS N,      \* number of items
          O       \* oracle: O[i][j] in {-1,0,1}, the observed Compare(item i, item j)

Perms == {f \in [1..N -> 1..N] : \A i, j \in 1..N : i # j => f[i] # f[j]}

VARIABLES input, out, k        \* input order (a permutation), sorted prefix, next index to insert
svars == <<input, out, k>>
SInit == input \in Perms /\ out = <<>> /\ k = 1
\* insert input[k] after the last element that is <= it (stable)
Insert ==
  /\ k <= N
  /\ LET x == input[k]
         pos == CHOOSE pp \in 0..Len(out) :
                   /\ \A q \in 1..pp : O[out[q]][x] <= 0
                   /\ (pp = Len(out) \/ O[out[pp + 1]][x] > 0) IN
     out' = SubSeq(out, 1, pos) \o <<x>> \o SubSeq(out, pos + 1, Len(out))
  /\ k' = k + 1 /\ input' = input
SNext == Insert
SSpec == SInit /\ [][SNext]_svars

Done == k = N + 1
IsPermutationOfInput == Done => {out[i] : i \in 1..Len(out)} = 1..N /\ Len(out) = N
NonDecreasing == Done => \A i \in 1..N - 1 : O[out[i]][out[i + 1]] <= 0
\* under a total preorder adjacent order implies order of every pair; under a cyclic oracle it does not
AllPairsOrdered == Done => \A i, j \in 1..N : i < j => O[out[i]][out[j]] <= 0
\* the class of an item: how many items are strictly below it (its rank under a total preorder)
Class(x) == Cardinality({y \in 1..N : O[y][x] < 0})
ClassSeq(q) == [i \in 1..Len(q) |-> Class(q[i])]
\* the sorted class sequence is the one of the sorted class multiset, whatever the input order
ClassSeqCanonical == Done => \A i \in 1..N - 1 : ClassSeq(out)[i] <= ClassSeq(out)[i + 1]
=============================================================================
