------------------------------ MODULE MC_Range ------------------------------
(* Exploration of the range-structure generator; every completed structure   *)
(* is emitted with the text rendered from this run's bound texts (RangeData). *)
EXTENDS RangeGen, RangeData, Json
CONSTANT E
Init == RInit(E)
Next == RNext
Emit == rdone => PrintT(<<"VEC", ToJson([eco |-> reco,
                                         text |-> RText(reco, rgroups, rsep, rorsep, BoundsOf[reco]),
                                         groups |-> RAbstract(reco, rgroups)])>>)
\* the generator alphabet is well-formed: bound indices within range, operators defined
ASSUME \A e \in E : \A st \in Structures(e) : \A g \in 1..Len(st) : \A c \in 1..Len(st[g]) :
          st[g][c][2] \in 1..NB /\ st[g][c][1] \in AllOps(e)
=============================================================================
