------------------------------- MODULE Range -------------------------------
(***************************************************************************)
(* Comparator ranges.  Semantics: a range is an OR of AND-groups of        *)
(* constraints (op, bound); it contains v iff some group has every         *)
(* constraint satisfied by the sign of Compare(v, bound).                  *)
(* Syntax: per ecosystem, the operators it supports (with aliases), its    *)
(* AND separators and its OR separator, as documented by each range.go     *)
(* and README.  RangeGen is the generator automaton: every range           *)
(* structure within the bounds below is one behaviour; the final state is  *)
(* emitted together with the text TLC rendered for it.                     *)
(***************************************************************************)
EXTENDS Chars

\* canonical operator meaning
Sat(op, s) == CASE op = "eq" -> s = 0 [] op = "ne" -> s # 0 [] op = "lt" -> s < 0
                [] op = "le" -> s <= 0 [] op = "gt" -> s > 0 [] op = "ge" -> s >= 0
\* groups: sequence of sequences of [op, b]; sg[g][c] = sign of Compare(v, bound of that constraint)
Den(groups, sg) == \E g \in 1..Len(groups) : \A c \in 1..Len(groups[g]) : Sat(groups[g][c].op, sg[g][c])

O(t, m) == [t |-> t, m |-> m]
OpsStd  == <<O(">=", "ge"), O("<=", "le"), O("!=", "ne"), O(">", "gt"), O("<", "lt"), O("=", "eq")>>
OpsNoNe == <<O(">=", "ge"), O("<=", "le"), O(">", "gt"), O("<", "lt"), O("=", "eq")>>
Syntax(e) ==
  CASE e \in {"alpine", "golang"}   -> [ops |-> OpsStd,  ands |-> <<" ">>, ors |-> <<>>, min |-> 1]
    [] e \in {"apache", "github", "mattermost"}
                                    -> [ops |-> OpsNoNe, ands |-> <<" ">>, ors |-> <<>>, min |-> 1]
    [] e \in {"alpm", "hex"}        -> [ops |-> OpsNoNe, ands |-> <<" ", " and ">>, ors |-> <<>>, min |-> 1]
    [] e = "cargo"                  -> [ops |-> OpsStd,  ands |-> <<",", ", ">>, ors |-> <<>>, min |-> 1]
    [] e = "composer"               -> [ops |-> OpsStd \o <<O("<>", "ne"), O("==", "eq")>>,
                                        ands |-> <<" ", ",", ", ">>, ors |-> <<"||", " || ">>, min |-> 1]
    [] e = "conan"                  -> [ops |-> OpsStd,  ands |-> <<" ", ",", ", ">>, ors |-> <<"||", " || ">>, min |-> 1]
    [] e \in {"cran", "gem"}        -> [ops |-> OpsStd,  ands |-> <<",", ", ">>, ors |-> <<>>, min |-> 1]
    [] e = "debian"                 -> [ops |-> OpsStd \o <<O(">>", "gt"), O("<<", "lt")>>,
                                        ands |-> <<",", ", ">>, ors |-> <<>>, min |-> 1]
    [] e \in {"gentoo", "rpm", "semver"}
                                    -> [ops |-> OpsStd,  ands |-> <<" ", ",", ", ">>, ors |-> <<>>, min |-> 1]
    [] e = "npm"                    -> [ops |-> OpsNoNe, ands |-> <<" ">>, ors |-> <<"||", " || ">>, min |-> 1]
    [] e = "nuget"                  -> [ops |-> OpsStd,  ands |-> <<",">>, ors |-> <<>>, min |-> 2]   \* list form only
    [] e = "pypi"                   -> [ops |-> <<O("==", "eq"), O("!=", "ne"), O("<=", "le"), O(">=", "ge"), O("<", "lt"), O(">", "gt")>>,
                                        ands |-> <<",", ", ">>, ors |-> <<>>, min |-> 1]
RangeEcos == {"alpine", "alpm", "apache", "cargo", "composer", "conan", "cran", "debian", "gem", "gentoo",
              "github", "golang", "hex", "mattermost", "npm", "nuget", "pypi", "rpm", "semver"}

\* characters a bound may not start with / contain (else the range text would be ambiguous)
BoundOk(e, t) ==
  LET cs == S2C(t) IN
  /\ cs # <<>> /\ cs[1] \notin {60, 62, 61, 33, 126, 94, 42}                     \* < > = ! ~ ^ *
  /\ \A i \in 1..Len(cs) : cs[i] \notin {32, 44, 124}                             \* space , |

=============================================================================
