------------------------------- MODULE MC_Cli -------------------------------
EXTENDS Cli, Json
Emit == cstage # "start" =>
          PrintT(<<"VEC", ToJson([name |-> cname, cmd |-> ccmd, nargs |-> cnargs, parses |-> cparses,
                                  stage |-> cstage, exit |-> ExitOf(cstage)])>>)
=============================================================================
