------------------------------ MODULE OrderApa ------------------------------
(* The rank lemma of Order.tla, for Apalache: for EVERY n x n matrix of signs *)
(* (a symbolic initial state, no enumeration) the rank criterion holds iff   *)
(* the matrix is a total preorder.  TLC checks the same statement by filling *)
(* 3x3 / 4x4 matrices cell by cell (MC_Order); the SMT encoding reaches n    *)
(* for which 3^(n*n) matrices cannot be enumerated.                           *)
EXTENDS Integers, FiniteSets
CONSTANT
  \* @type: Int;
  N
VARIABLE
  \* @type: <<Int, Int>> -> Int;
  M

Idx == 1..N
Sign(x) == IF x < 0 THEN -1 ELSE IF x > 0 THEN 1 ELSE 0

Refl    == \A i \in Idx : M[<<i, i>>] = 0
Antisym == \A i, j \in Idx : M[<<i, j>>] = -M[<<j, i>>]
Trans   == \A i, j, k \in Idx :
             (M[<<i, j>>] <= 0 /\ M[<<j, k>>] <= 0) =>
               /\ M[<<i, k>>] <= 0
               /\ (M[<<i, j>>] < 0 \/ M[<<j, k>>] < 0) => M[<<i, k>>] < 0
TotalPreorder == Refl /\ Antisym /\ Trans

Rank(i) == Cardinality({k \in Idx : M[<<k, i>>] < 0})
RankExplains == \A i, j \in Idx : M[<<i, j>>] = Sign(Rank(i) - Rank(j))

CInit5 == N = 5   \* not finished within 15 min on this image
CInit4 == N = 4
Init == M \in [Idx \X Idx -> {-1, 0, 1}]
Next == UNCHANGED M
RankLemma == RankExplains <=> TotalPreorder
=============================================================================
