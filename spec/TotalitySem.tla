---------------------------- MODULE TotalitySem ----------------------------
(* The time budget of C06 (milliseconds) for an input of n bytes: generous and quadratic; a hang or a *)
(* cubic blow-up exceeds it, n log n and n^2 do not.                                                   *)
EXTENDS Integers
BudgetMs(n) == LET nk == (n + 999) \div 1000 IN 5000 + 2 * nk * nk
=============================================================================
