------------------------------- MODULE Chars -------------------------------
(***************************************************************************)
(* Characters.  A text is either a TLA+ string (TLC lets us take Len,      *)
(* SubSeq and \o of strings, but not index them) or a sequence of byte     *)
(* codes 0..255.  Everything that looks *inside* a text works on code      *)
(* sequences; S2C converts a printable-ASCII string once.                  *)
(***************************************************************************)
EXTENDS Integers, Sequences, FiniteSets, TLC, TLCExt

Printable ==
  " !\"#$%&'()*+,-./0123456789:;<=>?@ABCDEFGHIJKLMNOPQRSTUVWXYZ[\\]^_`abcdefghijklmnopqrstuvwxyz{|}~"

ASSUME Len(Printable) = 95

\* one-character string -> code (32..126)
CodeMap == TLCEval([c \in {SubSeq(Printable, i, i) : i \in 1..95} |->
                      31 + (CHOOSE i \in 1..95 : SubSeq(Printable, i, i) = c)])

S2C(s) == TLCEval([i \in 1..Len(s) |-> CodeMap[SubSeq(s, i, i)]])
\* total variant for classification only (is this text of a regular shape?): every character outside printable ASCII
\* counts as the letter x (what the parsers that accept such bytes do with them); never used where two texts are compared by content
S2CX(s) == TLCEval([i \in 1..Len(s) |-> LET c == SubSeq(s, i, i) IN IF c \in DOMAIN CodeMap THEN CodeMap[c] ELSE 120])

\* code (32..126) -> one-character string; other codes render as "?"
C2S1(c) == IF c >= 32 /\ c <= 126 THEN SubSeq(Printable, c - 31, c - 31) ELSE "?"
RECURSIVE C2S(_)
C2S(cs) == IF cs = <<>> THEN "" ELSE C2S1(Head(cs)) \o C2S(Tail(cs))

IsDigit(c) == c >= 48 /\ c <= 57
IsLower(c) == c >= 97 /\ c <= 122
IsUpper(c) == c >= 65 /\ c <= 90
IsAlpha(c) == IsLower(c) \/ IsUpper(c)
IsAlnum(c) == IsDigit(c) \/ IsAlpha(c)
ToLower(c) == IF IsUpper(c) THEN c + 32 ELSE c
LowerSeq(cs) == [i \in 1..Len(cs) |-> ToLower(cs[i])]
AllDigits(cs) == \A i \in 1..Len(cs) : IsDigit(cs[i])

Sign(n) == IF n < 0 THEN -1 ELSE IF n > 0 THEN 1 ELSE 0
Min2(a, b) == IF a < b THEN a ELSE b
Max2(a, b) == IF a > b THEN a ELSE b
MinOf(S) == CHOOSE x \in S : \A y \in S : x <= y
MaxOf(S) == CHOOSE x \in S : \A y \in S : x >= y

\* index of the first position >= from whose code satisfies/does not satisfy a class; Len+1 if none
FirstAt(cs, from, P(_)) ==
  LET S == {i \in from..Len(cs) : P(cs[i])} IN IF S = {} THEN Len(cs) + 1 ELSE MinOf(S)
FirstNotAt(cs, from, P(_)) ==
  LET S == {i \in from..Len(cs) : ~P(cs[i])} IN IF S = {} THEN Len(cs) + 1 ELSE MinOf(S)

IndexOf(cs, c) == LET S == {i \in 1..Len(cs) : cs[i] = c} IN IF S = {} THEN 0 ELSE MinOf(S)
LastIndexOf(cs, c) == LET S == {i \in 1..Len(cs) : cs[i] = c} IN IF S = {} THEN 0 ELSE MaxOf(S)

\* split a code sequence at every occurrence of code c (empty pieces kept)
RECURSIVE SplitAt(_, _)
SplitAt(cs, c) ==
  LET k == IndexOf(cs, c) IN
  IF k = 0 THEN <<cs>> ELSE <<SubSeq(cs, 1, k - 1)>> \o SplitAt(SubSeq(cs, k + 1, Len(cs)), c)

\* maximal runs: sequence of records [d |-> is-digit-run, s |-> codes] over alnum chars; other chars split
IsWs(c) == c \in {32, 9, 10, 13, 11, 12}
TrimL(cs) == LET k == FirstNotAt(cs, 1, IsWs) IN SubSeq(cs, k, Len(cs))
TrimR(cs) == LET S == {i \in 1..Len(cs) : ~IsWs(cs[i])} IN IF S = {} THEN <<>> ELSE SubSeq(cs, 1, MaxOf(S))
Trim(cs) == TrimR(TrimL(cs))

-----------------------------------------------------------------------------
(* Numbers are digit-code sequences of any length: exact beyond 64 bits.    *)
StripZ(d) == LET k == FirstNotAt(d, 1, LAMBDA c : c = 48) IN SubSeq(d, k, Len(d))

\* lexicographic on codes, a proper prefix is lower
LexCmp(a, b) ==
  LET n == Min2(Len(a), Len(b))
      D == {i \in 1..n : a[i] # b[i]} IN
  IF D = {} THEN Sign(Len(a) - Len(b))
  ELSE LET i == MinOf(D) IN Sign(a[i] - b[i])

NumCmp(a, b) ==
  LET x == StripZ(a)  y == StripZ(b) IN
  IF Len(x) # Len(y) THEN Sign(Len(x) - Len(y)) ELSE LexCmp(x, y)

\* small digit sequences to TLC integers (only where the value is known to be small)
RECURSIVE DigitsVal(_)
DigitsVal(d) == IF d = <<>> THEN 0 ELSE DigitsVal(SubSeq(d, 1, Len(d) - 1)) * 10 + (d[Len(d)] - 48)

\* compare two sequences position-wise with an element comparison, a proper prefix is lower
SeqCmp(a, b, Cmp(_, _)) ==
  LET n == Min2(Len(a), Len(b))
      D == {i \in 1..n : Cmp(a[i], b[i]) # 0} IN
  IF D = {} THEN Sign(Len(a) - Len(b))
  ELSE LET i == MinOf(D) IN Cmp(a[i], b[i])
=============================================================================
