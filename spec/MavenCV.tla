------------------------------ MODULE MavenCV ------------------------------
(***************************************************************************)
(* Reference order of Maven versions:                                      *)
(* org.apache.maven.artifact.versioning.ComparableVersion, Maven 3.8.7     *)
(* (parseVersion / normalize / compareTo), transcribed on code sequences.  *)
(* Audited against maven-artifact-3.x.jar (3.8.7) by `vcheck audit C12`.   *)
(*                                                                         *)
(* An item is [t |-> "n", v |-> digits without leading zeros]              *)
(*          | [t |-> "s", v |-> qualifier codes]  | [t |-> "l", v |-> seq]. *)
(* A nested list is always the last item of its parent, so the scanner     *)
(* keeps the chain of lists as a sequence of levels.                       *)
(***************************************************************************)
EXTENDS Chars

MvZero == [t |-> "n", v |-> <<>>]
QAlpha == S2C("alpha")  QBeta == S2C("beta")  QMile == S2C("milestone")
QRc == S2C("rc")  QSnap == S2C("snapshot")  QSp == S2C("sp")
QReleaseAliases == {S2C("ga"), S2C("final"), S2C("release")}

MvItem(isDig, tok, followedByDigit0, al) ==
  IF isDig THEN [t |-> "n", v |-> StripZ(tok)]
  ELSE LET followedByDigit == followedByDigit0 \/ al   \* al: bare a/b/m are aliases too (go-univers)
           q1 == IF followedByDigit /\ Len(tok) = 1
                 THEN (IF tok = S2C("a") THEN QAlpha ELSE IF tok = S2C("b") THEN QBeta
                       ELSE IF tok = S2C("m") THEN QMile ELSE tok)
                 ELSE tok
           q2 == IF q1 \in QReleaseAliases THEN <<>> ELSE IF q1 = S2C("cr") THEN QRc ELSE q1
       IN [t |-> "s", v |-> q2]

MvAdd(lv, it) == [lv EXCEPT ![Len(lv)] = Append(@, it)]
MvOpen(lv)    == Append(lv, <<>>)
MvLast(lv)    == lv[Len(lv)]

\* sub = TRUE: Maven 3.8.7 (MNG-7644): a qualifier that ends the version or is followed by a
\* digit opens its own list when the current list is not empty.  sub = FALSE: Maven 3.8.1-3.8.6.
RECURSIVE MvScan(_, _, _, _, _, _, _)
MvScan(s, i, start, isDig, lv, sub, al) ==
  IF i > Len(s) THEN
       IF start <= Len(s)
       THEN LET lv2 == IF sub /\ ~isDig /\ MvLast(lv) # <<>> THEN MvOpen(lv) ELSE lv IN
            MvAdd(lv2, MvItem(isDig, SubSeq(s, start, Len(s)), FALSE, al))
       ELSE lv
  ELSE
  LET c   == s[i]
      tok == SubSeq(s, start, i - 1)
      cur == IF i = start THEN MvZero ELSE MvItem(isDig, tok, FALSE, al) IN
  IF c = 46 THEN MvScan(s, i + 1, i + 1, isDig, MvAdd(lv, cur), sub, al)
  ELSE IF c = 45 THEN MvScan(s, i + 1, i + 1, isDig, MvOpen(MvAdd(lv, cur)), sub, al)
  ELSE IF IsDigit(c) THEN
       IF ~isDig /\ i > start
       THEN LET lv2 == IF sub /\ MvLast(lv) # <<>> THEN MvOpen(lv) ELSE lv IN
            MvScan(s, i + 1, i, TRUE, MvOpen(MvAdd(lv2, MvItem(FALSE, tok, TRUE, al))), sub, al)
       ELSE MvScan(s, i + 1, start, TRUE, lv, sub, al)
  ELSE IF isDig /\ i > start
       THEN MvScan(s, i + 1, i, FALSE, MvOpen(MvAdd(lv, MvItem(TRUE, tok, FALSE, al))), sub, al)
       ELSE MvScan(s, i + 1, start, FALSE, lv, sub, al)

MvIsNull(it) == it.v = <<>>

\* ListItem.normalize(): drop trailing null items, walking past non-empty nested lists
RECURSIVE MvNormFrom(_, _)
MvNormFrom(items, i) ==
  IF i = 0 THEN items
  ELSE IF MvIsNull(items[i])
       THEN MvNormFrom(SubSeq(items, 1, i - 1) \o SubSeq(items, i + 1, Len(items)), i - 1)
       ELSE IF items[i].t # "l" THEN items ELSE MvNormFrom(items, i - 1)
MvNorm(items) == MvNormFrom(items, Len(items))

RECURSIVE MvBuild(_, _)
MvBuild(lv, k) ==
  IF k = Len(lv) THEN MvNorm(lv[k])
  ELSE MvNorm(Append(lv[k], [t |-> "l", v |-> MvBuild(lv, k + 1)]))

MvParse(s, sub) == MvBuild(MvScan(LowerSeq(s), 1, 1, FALSE, <<<<>>>>, sub, FALSE), 1)

\* qualifier order: alpha < beta < milestone < rc < snapshot < "" < sp < anything else (by text)
QRank(q) == IF q = QAlpha THEN 0 ELSE IF q = QBeta THEN 1 ELSE IF q = QMile THEN 2 ELSE IF q = QRc THEN 3
            ELSE IF q = QSnap THEN 4 ELSE IF q = <<>> THEN 5 ELSE IF q = QSp THEN 6 ELSE 7
QCmp(a, b) == IF QRank(a) # QRank(b) THEN Sign(QRank(a) - QRank(b))
              ELSE IF QRank(a) = 7 THEN LexCmp(a, b) ELSE 0

RECURSIVE MvNullCmp(_), MvItemCmp(_, _), MvListCmp(_, _, _)
MvNullCmp(it) ==           \* item.compareTo(null)
  CASE it.t = "n" -> IF it.v = <<>> THEN 0 ELSE 1
    [] it.t = "s" -> QCmp(it.v, <<>>)
    [] it.t = "l" -> LET nz == {i \in 1..Len(it.v) : MvNullCmp(it.v[i]) # 0} IN
                     IF nz = {} THEN 0 ELSE MvNullCmp(it.v[MinOf(nz)])
MvItemCmp(a, b) ==
  CASE a.t = "n" -> IF b.t = "n" THEN NumCmp(a.v, b.v) ELSE 1
    [] a.t = "s" -> IF b.t = "s" THEN QCmp(a.v, b.v) ELSE -1
    [] a.t = "l" -> IF b.t = "n" THEN -1 ELSE IF b.t = "s" THEN 1 ELSE MvListCmp(a.v, b.v, 1)
MvListCmp(a, b, i) ==
  IF i > Len(a) /\ i > Len(b) THEN 0
  ELSE LET r == IF i > Len(a) THEN -MvNullCmp(b[i])
                ELSE IF i > Len(b) THEN MvNullCmp(a[i])
                ELSE MvItemCmp(a[i], b[i]) IN
       IF r # 0 THEN r ELSE MvListCmp(a, b, i + 1)

\* key: both readings of "Maven 3.8" (3.8.7 and 3.8.1-3.8.6); a pair is claimed only where they agree
MvKey(s) == [k7 |-> MvParse(s, TRUE), k6 |-> MvParse(s, FALSE)]
MvCmpKey(x, y) ==
  LET c7 == MvListCmp(x.k7, y.k7, 1)
      c6 == MvListCmp(x.k6, y.k6, 1) IN
  IF c7 = c6 THEN c7 ELSE 2          \* 2 = not claimed
MavenCmp387(a, b) == MvListCmp(MvParse(a, TRUE), MvParse(b, TRUE), 1)
\* go-univers today: ComparableVersion 3.8.7 with bare a/b/m aliased as well (pinned by its tests)
MvParseImpl(s) == MvBuild(MvScan(LowerSeq(s), 1, 1, FALSE, <<<<>>>>, TRUE, TRUE), 1)
MavenImplCmp(a, b) == MvListCmp(MvParseImpl(a), MvParseImpl(b), 1)

-----------------------------------------------------------------------------
(* The quantifier of C12: conventional shapes N(.N){0,3} optionally followed  *)
(* by one group joined by '.' or '-': a qualifier alone, a qualifier with a    *)
(* number glued or joined by '.'/'-', or a bare build number (-N).  Bare       *)
(* single-letter aliases (a/b/m not directly followed by a digit) and           *)
(* ga/final/release followed by a number are not claimed.                       *)
RECURSIVE MvNumPrefixEnd(_, _, _)
MvNumPrefixEnd(s, from, k) ==          \* s[from] is a digit; returns <<end index, components>>
  LET e == FirstNotAt(s, from, IsDigit) IN
  IF k < 4 /\ e + 1 <= Len(s) /\ s[e] = 46 /\ IsDigit(s[e + 1])
  THEN MvNumPrefixEnd(s, e + 1, k + 1)
  ELSE <<e, k>>
MvInScope(s0) ==
  LET s == LowerSeq(s0) IN
  /\ s # <<>> /\ IsDigit(s[1])
  /\ LET pe == MvNumPrefixEnd(s, 1, 1)
         e  == pe[1]
         r  == SubSeq(s, e, Len(s)) IN
     \/ r = <<>>
     \/ /\ Len(r) >= 2 /\ r[1] \in {46, 45}
        /\ LET r2 == SubSeq(r, 2, Len(r)) IN
           \/ (r[1] = 45 /\ AllDigits(r2))                                 \* bare build number
           \/ /\ IsLower(r2[1])
              /\ LET qe == FirstNotAt(r2, 1, IsLower)
                     q  == SubSeq(r2, 1, qe - 1)
                     r3 == SubSeq(r2, qe, Len(r2))
                     single == q \in {S2C("a"), S2C("b"), S2C("m")} IN
                 \/ (r3 = <<>> /\ ~single)                                   \* qualifier alone
                 \/ /\ r3 # <<>> /\ AllDigits(r3) /\ q \notin QReleaseAliases  \* glued number
                 \/ /\ Len(r3) >= 2 /\ r3[1] \in {46, 45} /\ AllDigits(SubSeq(r3, 2, Len(r3)))
                    /\ ~single /\ q \notin QReleaseAliases

\* C01 for maven: ComparableVersion is a total preorder on the conventional shapes except those whose
\* group is joined by '.' and has a separated number (1.0.alpha-2, 1.0.rc.1): there the qualifier stays
\* in the root list and "a nested list compares below any number" gives 1 < 1-1 < 1.0.alpha-2 < 1.
MvRegular(s0) ==
  /\ MvInScope(s0)
  /\ LET s  == LowerSeq(s0)
         e  == MvNumPrefixEnd(s, 1, 1)[1]
         r  == SubSeq(s, e, Len(s)) IN
     ~(/\ Len(r) >= 2 /\ r[1] = 46 /\ IsLower(r[2])
       /\ LET r2 == SubSeq(r, 2, Len(r))
              qe == FirstNotAt(r2, 1, IsLower) IN
          qe <= Len(r2) /\ r2[qe] \in {46, 45})

\* statements of the property, derived from the algorithm
MT(a, b, r) == MavenCmp387(S2C(a), S2C(b)) = r
ASSUME /\ MT("1-1", "1.0.1", -1) /\ MT("1.0.1", "1.1", -1)
       /\ MT("1.0-alpha", "1.0-beta", -1) /\ MT("1.0-beta", "1.0-milestone", -1) /\ MT("1.0-milestone", "1.0-rc", -1)
       /\ MT("1.0-rc", "1.0-cr", 0) /\ MT("1.0-rc", "1.0-snapshot", -1) /\ MT("1.0-snapshot", "1.0", -1)
       /\ MT("1.0", "1.0-ga", 0) /\ MT("1.0", "1.0-final", 0) /\ MT("1.0", "1.0.RELEASE", 0)
       /\ MT("1.0", "1.0-sp", -1) /\ MT("1.0-sp", "1.0-foo", -1) /\ MT("1.0-foo", "1.0-zeta", -1) /\ MT("1.0-zeta", "1.0-1", -1)
       /\ MT("1.0-a1", "1.0-alpha-1", 0) /\ MT("1.0-b2", "1.0-beta-2", 0) /\ MT("1.0-m3", "1.0-milestone-3", 0)
       /\ MT("1.0-RC1", "1.0-rc1", 0) /\ MT("1", "1.0.0", 0) /\ MT("1.0-SNAPSHOT", "1.0", -1)
=============================================================================
