---- MODULE MC_Conc_TTrace_1790463199 ----
EXTENDS Sequences, TLCExt, MC_Conc, Toolbox, Naturals, TLC

_expression ==
    LET MC_Conc_TEExpression == INSTANCE MC_Conc_TEExpression
    IN MC_Conc_TEExpression!expression
----

_trace ==
    LET MC_Conc_TETrace == INSTANCE MC_Conc_TETrace
    IN MC_Conc_TETrace!trace
----

_inv ==
    ~(
        TLCGet("level") = Len(_TETrace)
        /\
        cur = (<<"compare", "contains", "compare">>)
        /\
        pc = (<<"idle", "mid2", "idle">>)
        /\
        bad = (TRUE)
        /\
        calls = (<<2, 1, 0>>)
        /\
        memo = ([compare |-> "compare", contains |-> "none", string |-> "none"])
        /\
        heap = ("dirty")
    )
----

_init ==
    /\ bad = _TETrace[1].bad
    /\ memo = _TETrace[1].memo
    /\ calls = _TETrace[1].calls
    /\ pc = _TETrace[1].pc
    /\ cur = _TETrace[1].cur
    /\ heap = _TETrace[1].heap
----

_next ==
    /\ \E i,j \in DOMAIN _TETrace:
        /\ \/ /\ j = i + 1
              /\ i = TLCGet("level")
        /\ bad  = _TETrace[i].bad
        /\ bad' = _TETrace[j].bad
        /\ memo  = _TETrace[i].memo
        /\ memo' = _TETrace[j].memo
        /\ calls  = _TETrace[i].calls
        /\ calls' = _TETrace[j].calls
        /\ pc  = _TETrace[i].pc
        /\ pc' = _TETrace[j].pc
        /\ cur  = _TETrace[i].cur
        /\ cur' = _TETrace[j].cur
        /\ heap  = _TETrace[i].heap
        /\ heap' = _TETrace[j].heap

\* Uncomment the ASSUME below to write the states of the error trace
\* to the given file in Json format. Note that you can pass any tuple
\* to `JsonSerialize`. For example, a sub-sequence of _TETrace.
    \* ASSUME
    \*     LET J == INSTANCE Json
    \*         IN J!JsonSerialize("MC_Conc_TTrace_1790463199.json", _TETrace)

=============================================================================

 Note that you can extract this module `MC_Conc_TEExpression`
  to a dedicated file to reuse `expression` (the module in the 
  dedicated `MC_Conc_TEExpression.tla` file takes precedence 
  over the module `MC_Conc_TEExpression` below).

---- MODULE MC_Conc_TEExpression ----
EXTENDS Sequences, TLCExt, MC_Conc, Toolbox, Naturals, TLC

expression == 
    [
        \* To hide variables of the `MC_Conc` spec from the error trace,
        \* remove the variables below.  The trace will be written in the order
        \* of the fields of this record.
        bad |-> bad
        ,memo |-> memo
        ,calls |-> calls
        ,pc |-> pc
        ,cur |-> cur
        ,heap |-> heap
        
        \* Put additional constant-, state-, and action-level expressions here:
        \* ,_stateNumber |-> _TEPosition
        \* ,_badUnchanged |-> bad = bad'
        
        \* Format the `bad` variable as Json value.
        \* ,_badJson |->
        \*     LET J == INSTANCE Json
        \*     IN J!ToJson(bad)
        
        \* Lastly, you may build expressions over arbitrary sets of states by
        \* leveraging the _TETrace operator.  For example, this is how to
        \* count the number of times a spec variable changed up to the current
        \* state in the trace.
        \* ,_badModCount |->
        \*     LET F[s \in DOMAIN _TETrace] ==
        \*         IF s = 1 THEN 0
        \*         ELSE IF _TETrace[s].bad # _TETrace[s-1].bad
        \*             THEN 1 + F[s-1] ELSE F[s-1]
        \*     IN F[_TEPosition - 1]
    ]

=============================================================================



Parsing and semantic processing can take forever if the trace below is long.
 In this case, it is advised to uncomment the module below to deserialize the
 trace from a generated binary file.

\*
\*---- MODULE MC_Conc_TETrace ----
\*EXTENDS IOUtils, MC_Conc, TLC
\*
\*trace == IODeserialize("MC_Conc_TTrace_1790463199.bin", TRUE)
\*
\*=============================================================================
\*

---- MODULE MC_Conc_TETrace ----
EXTENDS MC_Conc, TLC

trace == 
    <<
    ([cur |-> <<"compare", "compare", "compare">>,pc |-> <<"idle", "idle", "idle">>,bad |-> FALSE,calls |-> <<0, 0, 0>>,memo |-> [compare |-> "none", contains |-> "none", string |-> "none"],heap |-> "clean"]),
    ([cur |-> <<"compare", "compare", "compare">>,pc |-> <<"mid", "idle", "idle">>,bad |-> FALSE,calls |-> <<1, 0, 0>>,memo |-> [compare |-> "none", contains |-> "none", string |-> "none"],heap |-> "clean"]),
    ([cur |-> <<"compare", "compare", "compare">>,pc |-> <<"end", "idle", "idle">>,bad |-> FALSE,calls |-> <<1, 0, 0>>,memo |-> [compare |-> "none", contains |-> "none", string |-> "none"],heap |-> "clean"]),
    ([cur |-> <<"compare", "compare", "compare">>,pc |-> <<"idle", "idle", "idle">>,bad |-> FALSE,calls |-> <<1, 0, 0>>,memo |-> [compare |-> "compare", contains |-> "none", string |-> "none"],heap |-> "clean"]),
    ([cur |-> <<"compare", "compare", "compare">>,pc |-> <<"mid", "idle", "idle">>,bad |-> FALSE,calls |-> <<2, 0, 0>>,memo |-> [compare |-> "compare", contains |-> "none", string |-> "none"],heap |-> "clean"]),
    ([cur |-> <<"compare", "compare", "compare">>,pc |-> <<"end", "idle", "idle">>,bad |-> FALSE,calls |-> <<2, 0, 0>>,memo |-> [compare |-> "compare", contains |-> "none", string |-> "none"],heap |-> "clean"]),
    ([cur |-> <<"compare", "contains", "compare">>,pc |-> <<"end", "mid", "idle">>,bad |-> FALSE,calls |-> <<2, 1, 0>>,memo |-> [compare |-> "compare", contains |-> "none", string |-> "none"],heap |-> "clean"]),
    ([cur |-> <<"compare", "contains", "compare">>,pc |-> <<"end", "mid2", "idle">>,bad |-> FALSE,calls |-> <<2, 1, 0>>,memo |-> [compare |-> "compare", contains |-> "none", string |-> "none"],heap |-> "dirty"]),
    ([cur |-> <<"compare", "contains", "compare">>,pc |-> <<"idle", "mid2", "idle">>,bad |-> TRUE,calls |-> <<2, 1, 0>>,memo |-> [compare |-> "compare", contains |-> "none", string |-> "none"],heap |-> "dirty"])
    >>
----


=============================================================================

---- CONFIG MC_Conc_TTrace_1790463199 ----
CONSTANTS
    Procs = { 1 , 2 , 3 }
    MaxCalls = 2
    Lazy = TRUE

INVARIANT
    _inv

CHECK_DEADLOCK
    \* CHECK_DEADLOCK off because of PROPERTY or INVARIANT above.
    FALSE

INIT
    _init

NEXT
    _next

CONSTANT
    _TETrace <- _trace

ALIAS
    _expression
=============================================================================
\* Generated on Sat Sep 26 22:53:21 UTC 2026