CONSTANT E = {"alpine", "alpm", "apache", "cargo", "composer", "conan", "cran", "debian", "gem", "gentoo", "github", "golang", "hex", "mattermost", "maven", "npm", "nuget", "pypi", "rpm", "semver"}
INIT Init
NEXT Next
INVARIANT Emit
CHECK_DEADLOCK FALSE
