---------------------------- MODULE MC_Universe ----------------------------
(* Exploration of the grammar automata of Universe.tla.  Every accepting     *)
(* state is emitted as one vector line (B1: the model's states are the test   *)
(* obligations).                                                              *)
EXTENDS Universe, Json
CONSTANT E
Init == UInit(E)
Next == UNext
Spec == Init /\ [][Next]_uvars
Emit == Member => PrintT(<<"VEC", ToJson([eco |-> eco, text |-> text, part |-> Part(eco, text)])>>)
\* sanity of the tables: every phase a transition leads to exists
TablesClosed == \A e \in E : \A p \in DOMAIN G(e) : \A tr \in G(e)[p] : tr[2] \in DOMAIN G(e)
ASSUME TablesClosed
=============================================================================
