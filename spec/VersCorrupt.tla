---------------------------- MODULE VersCorrupt ----------------------------
(* Generator for C17: every single-point corruption (delete / replace / insert  *)
(* at each position) of seed VERS ranges, near-miss scheme names, and routing   *)
(* ranges over versions that are valid or ordered differently across schemes.   *)
EXTENDS VersSyntax

CONSTANTS Seeds,      \* set of <<scheme, range text, probe text>>
          Bytes,      \* corruption alphabet (byte codes)
          Routing     \* set of <<scheme, range text, probe text>> emitted uncorrupted

Deleted(s)  == {SubSeq(s, 1, i - 1) \o SubSeq(s, i + 1, Len(s)) : i \in 1..Len(s)}
Replaced(s) == {[s EXCEPT ![i] = b] : i \in 1..Len(s), b \in Bytes}
Inserted(s) == {SubSeq(s, 1, i) \o <<b>> \o SubSeq(s, i + 1, Len(s)) : i \in 0..Len(s), b \in Bytes}
\* constraint-level corruptions: a star among the constraints (at every position, and in place of every
\* constraint), and constraint lists that are empty once blanks are removed
RECURSIVE JoinBar(_)
JoinBar(ps) == IF Len(ps) = 0 THEN <<>> ELSE IF Len(ps) = 1 THEN ps[1] ELSE ps[1] \o <<124>> \o JoinBar(Tail(ps))
StarForms(s) ==
  LET sl    == IndexOf(s, 47)
      head  == SubSeq(s, 1, sl)
      parts == SplitAt(SubSeq(s, sl + 1, Len(s)), 124)
      n     == Len(parts)
      ins(k) == SubSeq(parts, 1, k) \o << <<42>> >> \o SubSeq(parts, k + 1, n) IN
  IF sl = 0 THEN {}
  ELSE {head \o JoinBar(ins(k)) : k \in 0..n}
       \cup {head \o JoinBar([parts EXCEPT ![k] = <<42>>]) : k \in 1..n}
       \cup {head \o e : e \in {<<>>, <<124>>, <<124, 124>>, <<32>>, <<32, 124, 32>>, <<42, 124, 42>>,
                               <<42, 42>>, <<42, 32, 42>>, <<42, 42, 42>>, <<42, 42, 124, 42, 42>>, <<32, 42, 42, 32>>}}
\* one character of the constraints part written as its URL escape (%XX, upper- and lower-case hex): go-univers takes the
\* text literally, so the result holds a '%' where a comparator or version character was - ill-formed for every scheme
\* (a tree that decodes escapes would silently read the original range)
HexDigit(d, lower) == IF d < 10 THEN 48 + d ELSE (IF lower THEN 87 ELSE 55) + d
PercentEncoded(s) ==
  LET sl == IndexOf(s, 47) IN
  IF sl = 0 THEN {}
  ELSE {SubSeq(s, 1, i - 1) \o <<37, HexDigit(s[i] \div 16, lw), HexDigit(s[i] % 16, lw)>> \o SubSeq(s, i + 1, Len(s))
          : i \in (sl + 1)..Len(s), lw \in BOOLEAN}
Corruptions(s) == (Deleted(s) \cup Replaced(s) \cup Inserted(s) \cup StarForms(s) \cup PercentEncoded(s)) \ {s}

\* ckind remembers which set the seed came from ("s" corrupted, "r" emitted as is): a membership test in the
\* large Routing set on every step would re-evaluate its definition each time
VARIABLES cseed, ckind, cbytes
cvars == <<cseed, ckind, cbytes>>
CInit == /\ \/ cseed \in Seeds /\ ckind = "s"
            \/ cseed \in Routing /\ ckind = "r"
         /\ cbytes = <<>>
CNext == /\ cbytes = <<>>
         /\ cbytes' \in (IF ckind = "r" THEN {S2C(cseed[2])} ELSE Corruptions(S2C(cseed[2])) \cup {S2C(cseed[2])})
         /\ UNCHANGED <<cseed, ckind>>
Vec == LET p == VParse(cbytes) IN
       [bytes |-> cbytes, probe |-> cseed[3], syntaxOk |-> p.syntaxOk, scheme |-> p.scheme, supported |-> p.supported,
        loneStar |-> p.loneStar, cons |-> p.cons, eco |-> IF p.supported THEN SchemeEco[p.scheme] ELSE ""]
=============================================================================
