---------------------------- MODULE VersCorrupt ----------------------------
(* Generator for C17: every single-point corruption (delete / replace / insert  *)
(* at each position) of seed VERS ranges, near-miss scheme names, and routing   *)
(* ranges over versions that are valid or ordered differently across schemes.   *)
EXTENDS VersSyntax

CONSTANTS Seeds,      \* set of <<scheme, range text, probe text>>
          Bytes,      \* corruption alphabet (byte codes)
          Routing     \* set of <<scheme, range text, probe text>> emitted uncorrupted

Deleted(s)  == {SubSeq(s, 1, i - 1) \o SubSeq(s, i + 1, Len(s)) : i \in 1..Len(s)}
Replaced(s) == {[s EXCEPT ![i] = b] : i \in 1..Len(s), b \in Bytes}
Inserted(s) == {SubSeq(s, 1, i) \o <<b>> \o SubSeq(s, i + 1, Len(s)) : i \in 0..Len(s), b \in Bytes}
Corruptions(s) == (Deleted(s) \cup Replaced(s) \cup Inserted(s)) \ {s}

\* ckind remembers which set the seed came from ("s" corrupted, "r" emitted as is): a membership test in the
\* large Routing set on every step would re-evaluate its definition each time
VARIABLES cseed, ckind, cbytes
cvars == <<cseed, ckind, cbytes>>
CInit == /\ \/ cseed \in Seeds /\ ckind = "s"
            \/ cseed \in Routing /\ ckind = "r"
         /\ cbytes = <<>>
CNext == /\ cbytes = <<>>
         /\ cbytes' \in (IF ckind = "r" THEN {S2C(cseed[2])} ELSE Corruptions(S2C(cseed[2])) \cup {S2C(cseed[2])})
         /\ UNCHANGED <<cseed, ckind>>
Vec == LET p == VParse(cbytes) IN
       [bytes |-> cbytes, probe |-> cseed[3], syntaxOk |-> p.syntaxOk, scheme |-> p.scheme, supported |-> p.supported,
        loneStar |-> p.loneStar, cons |-> p.cons, eco |-> IF p.supported THEN SchemeEco[p.scheme] ELSE ""]
=============================================================================
