---------------------------- MODULE VersCorrupt ----------------------------
(* Generator for C17: every single-point corruption (delete / replace / insert  *)
(* at each position) of seed VERS ranges, near-miss scheme names, and routing   *)
(* ranges over versions that are valid or ordered differently across schemes.   *)
EXTENDS VersSyntax

CONSTANTS Seeds,      \* set of <<scheme, range text, probe text>>
          Bytes,      \* corruption alphabet (byte codes)
          Routing     \* set of <<scheme, range text, probe text>> emitted uncorrupted

Deleted(s)  == {SubSeq(s, 1, i - 1) \o SubSeq(s, i + 1, Len(s)) : i \in 1..Len(s)}
Replaced(s) == {[s EXCEPT ![i] = b] : i \in 1..Len(s), b \in Bytes}
Inserted(s) == {SubSeq(s, 1, i) \o <<b>> \o SubSeq(s, i + 1, Len(s)) : i \in 0..Len(s), b \in Bytes}
Corruptions(s) == (Deleted(s) \cup Replaced(s) \cup Inserted(s)) \ {s}

VARIABLES cseed, cbytes
cvars == <<cseed, cbytes>>
CInit == cseed \in Seeds \cup Routing /\ cbytes = <<>>
CNext == /\ cbytes = <<>>
         /\ cbytes' \in (IF cseed \in Routing THEN {S2C(cseed[2])} ELSE Corruptions(S2C(cseed[2])) \cup {S2C(cseed[2])})
         /\ cseed' = cseed
Vec == LET p == VParse(cbytes) IN
       [bytes |-> cbytes, probe |-> cseed[3], syntaxOk |-> p.syntaxOk, scheme |-> p.scheme, supported |-> p.supported,
        loneStar |-> p.loneStar, cons |-> p.cons, eco |-> IF p.supported THEN SchemeEco[p.scheme] ELSE ""]
=============================================================================
