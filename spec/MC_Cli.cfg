SPECIFICATION CliSpec
INVARIANT SuccessIffAllStages
INVARIANT ExitIsZeroOrOne
INVARIANT Emit
CHECK_DEADLOCK FALSE
