------------------------------ MODULE MC_Order ------------------------------
(* Design-level check: the rank criterion is equivalent to the three laws,   *)
(* explored as a state machine that fills a 3x3 and a 4x4 observation matrix *)
(* one cell at a time (every reachable full matrix is checked).              *)
EXTENDS Order
CONSTANT N
VARIABLES M, pos          \* M: partial matrix as function; pos: next cell 0..N*N

Cell(p) == <<(p \div N) + 1, (p % N) + 1>>
Init == M = [i \in 1..N |-> [j \in 1..N |-> 0]] /\ pos = 0
Fill == /\ pos < N * N
        /\ \E s \in {-1, 0, 1} :
             M' = [M EXCEPT ![Cell(pos)[1]][Cell(pos)[2]] = s]
        /\ pos' = pos + 1
Next == Fill
Spec == Init /\ [][Next]_<<M, pos>>

RankLemma == pos = N * N => (RankExplains(M, N) <=> TotalPreorder(M, N))
=============================================================================
