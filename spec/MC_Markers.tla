----------------------------- MODULE MC_Markers -----------------------------
EXTENDS Markers, Json
CONSTANTS E, Ctxs
Init == MInit(E)
Next == MNext(Ctxs)
Emit == mvec # <<>> => PrintT(<<"VEC", ToJson(mvec)>>)
=============================================================================
