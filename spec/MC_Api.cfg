CONSTANT Texts = {"a", "b"}
CONSTANT MaxLog = 3
SPECIFICATION ASpec
INVARIANT OnlyLegalOutcomes
INVARIANT EmitPads
PROPERTY ObserversArePure
PROPERTY EveryCallReturns
CONSTRAINT Bound
CHECK_DEADLOCK FALSE
