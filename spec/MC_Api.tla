------------------------------- MODULE MC_Api -------------------------------
EXTENDS Api, Json, SequencesExt
CONSTANT MaxLog
Bound == Len(log) <= MaxLog
\* the padding pairs of C18, emitted once from the initial state
EmitPads == (log = <<>> /\ pending = <<>>) =>
              PrintT(<<"VEC", ToJson([pads |-> SetToSeq({[l |-> p[1], r |-> p[2]] : p \in Paddings})])>>)
=============================================================================
