CONSTANT N = 3
INIT Init
NEXT Next
INVARIANT RankLemma
CHECK_DEADLOCK FALSE
