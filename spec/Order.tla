------------------------------- MODULE Order -------------------------------
(***************************************************************************)
(* Order as hidden state.  A client of an ecosystem can only observe       *)
(* Compare(a,b) in {-1,0,1}.  The comparison is a total preorder iff one   *)
(* hidden variable - a rank per version - explains every observation:      *)
(*     M[i][j] = Sign(rank[i] - rank[j]).                                  *)
(* M is an observed n x n matrix (sequence of sequences).                  *)
(***************************************************************************)
EXTENDS Chars

Refl(M, n)    == \A i \in 1..n : M[i][i] = 0
Signs(M, n)   == \A i, j \in 1..n : M[i][j] \in {-1, 0, 1}
Antisym(M, n) == \A i, j \in 1..n : M[i][j] = -M[j][i]
\* a <= b /\ b <= c => a <= c, strictly if either step is strict
Trans(M, n)   == \A i, j, k \in 1..n :
                   (M[i][j] <= 0 /\ M[j][k] <= 0) =>
                     /\ M[i][k] <= 0
                     /\ (M[i][j] < 0 \/ M[j][k] < 0) => M[i][k] < 0
TotalPreorder(M, n) == Signs(M, n) /\ Refl(M, n) /\ Antisym(M, n) /\ Trans(M, n)

\* the canonical hidden variable: how many members are strictly below i
Rank(M, n) == TLCEval([i \in 1..n |-> Cardinality({k \in 1..n : M[k][i] < 0})])

RankExplains(M, n) ==
  LET R == Rank(M, n) IN \A i, j \in 1..n : M[i][j] = Sign(R[i] - R[j])

\* the pairs no rank explains (empty iff RankExplains); restricted to an index set S
RankOn(M, S) == TLCEval([i \in S |-> Cardinality({k \in S : M[k][i] < 0})])
Unexplained(M, S) ==
  LET R == RankOn(M, S) IN {p \in S \X S : M[p[1]][p[2]] # Sign(R[p[1]] - R[p[2]])}

-----------------------------------------------------------------------------
(* Lemma (checked by TLC for every 3x3 sign matrix, proved on paper in      *)
(* DESIGN.md 5-C01): RankExplains <=> TotalPreorder.                         *)
SignRows3 == [1..3 -> {-1, 0, 1}]
AllM3     == [1..3 -> SignRows3]
LemmaRank3 == \A M \in AllM3 : RankExplains(M, 3) <=> TotalPreorder(M, 3)
=============================================================================
