------------------------------ MODULE Universe ------------------------------
(***************************************************************************)
(* The bounded universes of version texts, one per ecosystem, written as   *)
(* grammar automata: a state is (phase, text so far); a transition appends *)
(* one token the grammar admits in that phase; texts of accepting phases   *)
(* are the members.  The token alphabets are taken from each ecosystem's   *)
(* parser (number forms incl. leading zeros and >64-bit runs, every known  *)
(* qualifier keyword, unknown words, every separator, letter case,         *)
(* prefixes).  A universe may over-approximate what the parser accepts:    *)
(* the conformance harness keeps only the texts the real NewVersion        *)
(* accepts and counts the rest.                                            *)
(*                                                                         *)
(* G(e)[phase] is a set of <<token, next phase>>; "S" is the start phase,  *)
(* Acc(e) the accepting phases.  Part(e, text) is a partition label (only  *)
(* alpm uses it: versions with / without an explicit pkgrel).              *)
(***************************************************************************)
EXTENDS Chars

T(tokens, next) == {<<t, next>> : t \in tokens}

Ecosystems == {"alpine", "alpm", "apache", "cargo", "composer", "conan", "cran",
               "debian", "gem", "gentoo", "github", "golang", "hex", "mattermost",
               "maven", "npm", "nuget", "pypi", "rpm", "semver"}

\* number alphabets
NSmall == {"0", "1", "2", "10"}
NMid   == {"0", "1", "2", "9", "10", "11"}
Big32  == "4294967296"                   \* 2^32
Big64  == "18446744073709551616"         \* 2^64
D20    == "99999999999999999999"         \* 20 digits
D23    == "10000000000000000000000"      \* 23 digits
Z23    == "00000000000000000000002"      \* 23 digits, value 2
ZBig64 == "00018446744073709551616"     \* leading zeros AND a value beyond 64 bits
ZBig65 == "018446744073709551617"
Hostile == {"01", "007", Big32, Big64, D20, D23, Z23, ZBig64, ZBig65}

-----------------------------------------------------------------------------
(* SemVer family: rich cores with poor pre-releases, plus a few fixed cores  *)
(* with rich pre-release identifier lists.                                   *)
SvIds == {"0", "1", "2", "10", "01", "alpha", "beta", "rc", "a", "A", "b", "B", "Alpha", "Beta", "RC", "-5", "a-b", "-",
          "0a", "x", "123456789012345678", "123456789012345679", "99999999999999999", "100000000000000000", "alpha1", "1a"}
SvId2 == {"0", "1", "10", "alpha", "a", "A", "B", "-5", "x"}
\* xpre: further prefix spellings the parser accepts (npm: "=", "v=", "=v"), on a poor branch of their own
SvGX(prefixes, fourth, xpre) ==
  [ S    |-> T(prefixes, "MAJ") \cup T(xpre, "XP"),
    XP   |-> T({"1.2.3", "0.0.1-rc.1", "1.0.0+b1", "10.0.0-alpha.x"}, "END"),
    MAJ  |-> T({"0", "1", "10"}, "d1") \cup T({"1.0.0", "1.2.3"}, "RICH") \cup T({"01"}, "d1"),
    d1   |-> T({"."}, "MIN"),
    MIN  |-> T({"0", "1", "9", "10"}, "d2") \cup T({"00"}, "d2"),
    d2   |-> T({"."}, "PAT"),
    PAT  |-> T({"0", "1", "2", Big32, Big64, "007"}, "POOR")
             \cup (IF fourth THEN T({"0.0", "0.1", "1.0"}, "POOR") ELSE {}),
    POOR |-> T({"-alpha", "-1", "+b1", "-rc.1"}, "END"),
    RICH |-> T({"-"}, "ID1") \cup T({"+build", "+1", "+b.2"}, "END")
             \cup (IF fourth THEN T({".0", ".1"}, "RICH4") ELSE {}),
    RICH4|-> T({"-alpha", "-1", "-rc.1", "-beta"}, "END"),
    ID1  |-> T(SvIds, "AFT1"),
    AFT1 |-> T({"."}, "ID2") \cup T({"+b1"}, "END"),
    ID2  |-> T(SvId2, "AFT2"),
    AFT2 |-> T({".0", ".x"}, "END"),
    END  |-> {} ]
SvG(prefixes, fourth) == SvGX(prefixes, fourth, {})
SvAcc == {"POOR", "RICH", "RICH4", "AFT1", "AFT2", "END"}

(* Go modules: SemVer shapes with "v" plus the three pseudo-version forms.   *)
GoTs  == {"20200101000000", "20200102000000", "20191231235959"}
GoRev == {"abcdef012345", "0123456789ab"}
GolangG ==
  [ S    |-> T({"v", ""}, "MAJ") \cup T({"v", ""}, "PMAJ"),
    MAJ  |-> T({"0", "1", "10"}, "d1") \cup T({"1.0.0", "1.2.3"}, "RICH"),
    d1   |-> T({"."}, "MIN"),
    MIN  |-> T({"0", "1", "9", "10"}, "d2"),
    d2   |-> T({"."}, "PAT"),
    PAT  |-> T({"0", "1", "2", Big32, Big64, "007"}, "POOR"),
    POOR |-> T({"-alpha", "-1", "+b1", "-rc.1", "+incompatible"}, "END"),
    RICH |-> T({"-"}, "ID1") \cup T({"+build", "+incompatible"}, "END"),
    ID1  |-> T(SvIds, "AFT1"),
    AFT1 |-> T({"."}, "ID2") \cup T({"+b1"}, "END"),
    ID2  |-> T(SvId2, "AFT2"),
    AFT2 |-> T({".0", ".x"}, "END"),
    \* pseudo-versions around v1.2.3 / v1.0.0 / v2.0.0
    PMAJ |-> T({"1.0.0-", "2.0.0-"}, "P1TS") \cup T({"1.2.4-0.", "1.0.1-0.", "1.2.3-0."}, "P1TS")
             \cup T({"1.2.3-pre.0.", "1.2.3-rc.1.0.", "1.2.4-alpha.0."}, "P1TS"),
    P1TS |-> T(GoTs, "PDASH"),
    PDASH|-> T({"-"}, "PREV"),
    PREV |-> T(GoRev, "END"),
    END  |-> {} ]
GolangAcc == {"POOR", "RICH", "AFT1", "AFT2", "END"}

HexG ==
  [ S    |-> T({""}, "MAJ"),
    MAJ  |-> T({"0", "1", "10"}, "d1") \cup T({"1.0.0", "1.2.3"}, "RICH") \cup T({"1.0", "1.2", "0.1", "10.10"}, "END"),
    d1   |-> T({"."}, "MIN"),
    MIN  |-> T({"0", "1", "9", "10"}, "d2"),
    d2   |-> T({"."}, "PAT"),
    PAT  |-> T({"0", "1", "2", Big32, Big64, "007"}, "POOR"),
    POOR |-> T({"-alpha", "-1", "+b1", "-rc.1"}, "END"),
    RICH |-> T({"-"}, "ID1") \cup T({"+build", "+1"}, "END"),
    ID1  |-> T(SvIds, "AFT1"),
    AFT1 |-> T({"."}, "ID2") \cup T({"+b1"}, "END"),
    ID2  |-> T(SvId2, "AFT2"),
    AFT2 |-> T({".0", ".x"}, "END"),
    END  |-> {} ]

-----------------------------------------------------------------------------
PypiG ==
  [ S    |-> T({""}, "RELR") \cup T({"", "0!", "1!", "2!"}, "RELP") \cup T({"1.0"}, "LOCR"),
    \* rich releases, poor tails
    RELP |-> T({"0", "1", "1.0", "1.0.0", "1.1", "1.2.3", "1.10", "2", "01.0", "1.0.0.0.0", "1.0.0.0.1",
                "1." \o Big64, "2.0", "1.9"}, "TAILP"),
    TAILP|-> T({"", "a1", ".post1", ".dev1", "rc1.post1.dev1", "+abc"}, "END"),
    \* fixed releases, rich tails
    RELR |-> T({"1.0", "1.1"}, "PRE"),
    PRE  |-> T({"", "a0", "a1", ".a1", "b2", "rc1", ".rc1", "alpha1", "beta2", "c1", "rc10", "a" \o Big64}, "POST"),
    POST |-> T({"", ".post0", ".post1", "post1", ".rev1", ".r2"}, "DEV"),
    DEV  |-> T({"", ".dev0", ".dev1", "dev1", ".dev10"}, "LOC"),
    LOC  |-> T({"", "+abc"}, "END"),
    LOCR |-> T({"+1", "+abc.1", "+1.abc", "+ubuntu-1", "+2", "+ABC", "+abc", "+abd", "+10", "+abc_1", "+1.0"}, "END") \cup T({".post1+1", "a1+1", ".dev1+abc"}, "END"),
    END  |-> {} ]

-----------------------------------------------------------------------------
(* Debian / RPM / ALPM: character-level tails after structured heads.        *)
DebChars == {"0", "1", "9", "a", "Z", ".", "+", "~", "-"}
DebianG ==
  [ S    |-> T({"", "0:", "1:"}, "UP1") \cup T({""}, "CH"),
    UP1  |-> T({"0", "1", "2", "10", "1.0", "1.0a", "1.0+", "1a", "1a0", "1.0~rc1", "1.0~~", "1.0~", "1.00",
                "1.01", "1.1", "1.10", "1.9", "2.0", "1.0." \o D20, "1.0." \o Z23, "1.0." \o D23, "1.0." \o Big64, "1.0." \o ZBig64, "1.0." \o ZBig65,
                "1.2-3", "1.0-1", "1.0+dfsg", "1.0+b1", "1.0A", "1.0.a", "1.0-a", "1.0~a", "1.0+a"}, "REV"),
    CH   |-> T({"1"}, "C1"),
    C1   |-> T(DebChars, "C2") \cup T({""}, "REVP"),
    C2   |-> T(DebChars, "C3") \cup T({""}, "REVP"),
    C3   |-> T(DebChars \ {"-"}, "REVP") \cup T({""}, "REVP"),
    REVP |-> T({"", "-1"}, "END"),
    REV  |-> T({"", "-0", "-1", "-a~", "-1.1", "-01", "-1+b1", "-1~bpo", "-" \o Z23}, "END"),
    END  |-> {} ]

RpmChars == {"0", "1", "a", "B", ".", "_", "+", "~", "^"}
RpmG ==
  [ S    |-> T({"", "0:", "1:"}, "V1") \cup T({""}, "CH"),
    V1   |-> T({"0", "1", "2", "10", "1.0", "1.0a", "1.0.1", "1.0.a", "1a", "1.a", "1.0~rc1", "1.0^git1", "1.0^",
                "1.0~", "1.00", "1.01", "1.1", "1.10", "1.9", "2.0", "1.0_1", "1.0+1", "1..0", "1.0.",
                "1.0." \o D20, "1.0." \o Z23, "1.0." \o D23, "1.0." \o ZBig64, "1.0." \o ZBig65, "1.0." \o Big64, "a", "A", "1.0~^", "1.0^~"}, "REL"),
    CH   |-> T({"1"}, "C1"),
    C1   |-> T(RpmChars, "C2") \cup T({""}, "RELP"),
    C2   |-> T(RpmChars, "C3") \cup T({""}, "RELP"),
    C3   |-> T(RpmChars, "RELP") \cup T({""}, "RELP"),
    RELP |-> T({"", "-1"}, "END"),
    REL  |-> T({"", "-0", "-1", "-1.el8", "-2.el8", "-1.fc30~a", "-01", "-a"}, "END"),
    END  |-> {} ]

AlpmG ==
  [ S    |-> T({"", "0:", "1:"}, "V1"),
    V1   |-> T({"0", "1", "2", "10", "1.0", "1.0a", "1.0.1", "1.0.a", "1a", "1.a", "1.0rc", "1.0rc1", "1.0alpha",
                "1.0beta", "1.0pre1", "1.0.rc1", "1.00", "1.01", "1.1", "1.10", "1.9", "2.0", "1.0_1", "1.0+1",
                "1.0." \o D20, "1.0." \o Z23, "1.0." \o D23, "1.0." \o ZBig64, "1.0." \o ZBig65, "1.0." \o Big64, "1.0.0", "1.0.0.0", "1.0b", "1.0B", "1.0.b1",
                "20200101", "1.0+git20200101", "1.0_alpha", "1.0.alpha", "1.", "1..a", "1a.", "1a.a", "1a0", "1..0", "1.0."}, "REL")
             \cup T({"1"}, "C1"),
    C1   |-> T({"0", "1", "a", "B", ".", "_", "+"}, "C2") \cup T({""}, "REL"),
    C2   |-> T({"0", "1", "a", "B", ".", "_", "+"}, "REL") \cup T({""}, "REL"),
    REL  |-> T({"", "-1", "-2", "-10", "-1.1", "-01"}, "END"),
    END  |-> {} ]

-----------------------------------------------------------------------------
MvnQual == {"alpha", "beta", "milestone", "rc", "cr", "snapshot", "ga", "final", "release", "sp",
            "ALPHA", "Beta", "RC", "SNAPSHOT", "Final", "GA", "SP", "a", "b", "m", "foo", "zeta", "Foo", "xyz"}
MavenG ==
  [ S    |-> T({"1", "1.0", "1.0.0", "1.1", "2", "1.0.1", "1.10", "1.2.3.4", "0", "0.1", "1.01", "1." \o D20, "1." \o ZBig64, "1." \o ZBig65, "1." \o Big64}, "SEPP")
             \cup T({"1", "1.0"}, "SEP"),
    SEPP |-> T({"", "-SNAPSHOT", "-rc1", ".Final", "-1", "-sp", "-foo", "-alpha-1", ".1"}, "END"),
    SEP  |-> T({"", "-", "."}, "Q"),
    Q    |-> T(MvnQual, "SEP2") \cup T({"1", "0", "2", "10", "01"}, "END") \cup T({""}, "END"),
    SEP2 |-> T({"", "-", "."}, "QN"),
    QN   |-> T({"", "1", "2", "10", "0"}, "END"),
    END  |-> {} ]

GemG ==
  [ S    |-> T({""}, "NUM") \cup T({"v1.0.0", "v1.0.0.rc1", "v2", "v1.0.0-alpha"}, "END"),
    NUM  |-> T({"0", "1", "1.0", "1.0.0", "1.1", "2.0.0", "1.0.1", "1.10", "1.2.3.4", "0.1", "1.01", "1.0.0.0",
                "2", "2.0", "1." \o D20, "1." \o ZBig64, "1." \o ZBig65, "1." \o Big64, "1.9"}, "G1"),
    G1   |-> T({"", ".rc1", ".rc.1", ".beta", ".beta.2", ".a4", "-alpha", "-alpha.1", ".pre", ".a", ".b", ".RC1",
                ".rc2", ".rc10", "-1", ".pre.1", ".z", ".alpha", ".Beta", ".rc0", ".rc", ".a0", ".beta.0"}, "G2"),
    G2   |-> T({"", ".1", ".0", ".a", "-b", ".c.0", ".0.b"}, "END"),
    END  |-> {} ]

-----------------------------------------------------------------------------
ApkSuffix == {"_alpha", "_beta", "_pre", "_rc", "_cvs", "_svn", "_git", "_hg", "_p", "_foo"}
AlpineG ==
  [ S    |-> T({"0", "1", "1.0", "1.1", "1.0.0", "1.10", "1.9", "2", "1.2.3.4.5", "1.01", "01", "1.0.0." \o Big32,
                "1." \o D20, "1." \o Z23, "2147483648", "1.5", "0.1", "1.05", "1.1.1"}, "LTRP")
             \cup T({"1.0"}, "LTR")
             \cup T({"1.0bc", "1.5x", "1.0.x", "1.0-foo", "1.0ab", "1.0_", "a", "1.10x", "1.9x"}, "END"),
    LTRP |-> T({"", "a", "z"}, "TAILP"),
    TAILP|-> T({"", "_rc1", "_p1", "-r1", "_alpha", "_git20200101", "~abc123", "_rc1-r2", "~0f-r1", "_p1_rc1"}, "END"),
    LTR  |-> T({"", "b"}, "SUF1"),
    SUF1 |-> T({""}, "REV") \cup T(ApkSuffix, "SN1"),
    SN1  |-> T({"", "1", "2"}, "SUF2"),
    SUF2 |-> T({""}, "REV") \cup T({"_alpha", "_p", "_git"}, "SN2"),
    SN2  |-> T({"", "1"}, "SUF3"),
    SUF3 |-> T({""}, "REV") \cup T({"_p1"}, "REV"),
    REV  |-> T({"", "-r0", "-r1"}, "END"),
    END  |-> {} ]

GentooG ==
  [ S    |-> T({"0", "1", "1.0", "1.1", "1.0.0", "1.10", "1.9", "2", "1.2.3.4.5", "1.01", "1.010", "1.1.1", "01",
                "1." \o D20, "1." \o Z23, "1." \o ZBig64, "1." \o ZBig65, "1." \o Big64, "1.0.0." \o Big32, "1.00", "1.001", "1.1.01", "1.1.1.0"}, "LTRP")
             \cup T({"1.0", "1.1"}, "LTR"),
    LTRP |-> T({"", "a", "A"}, "TAILP"),
    TAILP|-> T({"", "_rc1", "_p1", "-r1", "_alpha", "_p", "_rc1-r1"}, "END"),
    LTR  |-> T({"", "a", "b", "z", "A"}, "SUF"),
    SUF  |-> T({""}, "REV") \cup T({"_alpha", "_beta", "_pre", "_rc", "_p"}, "SN"),
    SN   |-> T({"", "0", "1", "2", "10", "01", D20}, "REV"),
    REV  |-> T({"", "-r0", "-r1", "-r2", "-r10", "-r01"}, "END"),
    END  |-> {} ]

-----------------------------------------------------------------------------
ApacheG ==
  [ S    |-> T({"0", "1", "2", "10", "01"}, "d1") \cup T({"1.0.0", "2.4.41"}, "Q"),
    d1   |-> T({"."}, "MIN"),
    MIN  |-> T({"0", "1", "9", "10", "00"}, "d2"),
    d2   |-> T({"."}, "PAT"),
    PAT  |-> T({"0", "1", "2", "10", "2147483647", "007"}, "QP"),
    QP   |-> T({"", "-RC1", "-alpha", "-SNAPSHOT", "-M2"}, "END"),
    Q    |-> T({""}, "END") \cup T({"-alpha", "-beta", "-M", "-m", "-milestone", "-RC", "-rc", "-SNAPSHOT", "-snapshot",
                                     "-dev", "-foo", "-Alpha", "-BETA", "-zzz", "-Milestone", "-final", "-GA"}, "QN"),
    QN   |-> T({"", "0", "1", "2", "10", "01", "v20200101", "v20191231"}, "END"),
    END  |-> {} ]

GithubG ==
  [ S    |-> T({"", "release-"}, "MAJ") \cup T({"", "v"}, "DATE") \cup T({"", "v"}, "FIX") \cup T({"rel-1.0.0", "release-1.0.0-rc1", "rel-1.2.3.beta.2"}, "END"),
    MAJ  |-> T({"0", "1", "10", "01", "2024", "999"}, "d1"),
    d1   |-> T({"."}, "MIN"),
    MIN  |-> T({"0", "1", "9", "10", "13"}, "d2"),
    d2   |-> T({"."}, "PAT"),
    PAT  |-> T({"0", "1", "10", "32", "2147483647"}, "QP"),
    QP   |-> T({"", "-rc1", "-alpha", ".beta.2"}, "END"),
    FIX  |-> T({"1.0.0", "1.2.3"}, "Q"),
    Q    |-> T({""}, "END") \cup T({"-", "."}, "QW"),
    QW   |-> T({"dev", "alpha", "beta", "rc", "snapshot", "foo", "RC", "Alpha", "SNAPSHOT", "pre", "preview", "final",
                "a", "b", "m", "zzz"}, "QD"),
    QD   |-> T({"", "."}, "QN"),
    QN   |-> T({"", "0", "1", "10", "01"}, "END"),
    DATE |-> T({"2024.01.15", "2024.1.15", "2024.12.31", "2023.12.31", "2024.1.2", "2024.01.02", "2024.10.1",
                "1000.12.31", "2024.13.1", "2024.0.1", "2024.1.32", "2024.9.9"}, "END"),
    END  |-> {} ]

MattermostG ==
  [ S    |-> T({"", "v"}, "MAJ"),
    MAJ  |-> T({"0", "1", "10", "9"}, "d1"),
    d1   |-> T({"."}, "MIN"),
    MIN  |-> T({"0", "1", "9", "10"}, "d2"),
    d2   |-> T({"."}, "PAT"),
    PAT  |-> T({"0", "1", "2", "10", "2147483647", Big64}, "Q"),
    Q    |-> T({""}, "END") \cup T({"-rc", "-esr"}, "QN"),
    QN   |-> T({"", "0", "1", "2", "10", Big64}, "END"),
    END  |-> {} ]

ComposerG ==
  [ S    |-> T({"", "v"}, "NUMP") \cup T({"", "v"}, "NUM") \cup T({"dev-master", "dev-main", "dev-feature/x", "dev-fix-x", "dev-1.0", "main", "master", "develop", "trunk", "feature/login", "release-1.0", "hotfix/1.2", "bugfix-x", "stable"}, "END"),
    NUMP |-> T({"0", "1", "1.0", "1.0.0", "1.1", "2.0.0", "1.0.1", "1.10", "1.2.3.4", "0.1", "1.01", "1.0.0.0",
                "2", "1.9", "1.0.0.0.0", "1.0.0.1"}, "QP"),
    QP   |-> T({"", "-beta1", "-RC1", "b1", "-patch1", "-dev", "+build"}, "END"),
    NUM  |-> T({"1.0.0", "1.0"}, "Q"),
    Q    |-> T({""}, "B") \cup T({"-alpha", "-beta", "-RC", "-a", "-b", "-rc", "-dev", "-patch"}, "QN1")
             \cup T({"alpha", "beta", "RC", "a", "b", "rc", "dev", "pl"}, "QN2"),
    QN1  |-> T({"", "1", "2", "10", ".1", ".2", "0", ".0"}, "B"),
    QN2  |-> T({"", "1", "2", "10", "0"}, "B"),
    B    |-> T({"", "+build"}, "END"),
    END  |-> {} ]

ConanG ==
  [ S    |-> T({"1", "1.0", "1.0.0", "1.2", "1.2.5", "1.02.5", "1.2.05", "01.2.5", "2", "1.10", "1.9", "1.0.0.0",
                "1.2.3.4.5", "1a", "1.a", "1.0a", "1.0.b", "a", "1.0.0a", "1.a1", "1.1a", "abc", "1.0.A", "1.B",
                "1." \o D20, "1." \o Z23, "1." \o ZBig64, "1." \o ZBig65, "1." \o Big64, "0", "0.1", "1.0.1", "1.2.3", "2.0", "1.1"}, "PRE"),
    PRE  |-> T({""}, "B") \cup T({"-alpha", "-beta", "-1", "-2", "-10", "-alpha.1", "-alpha.2", "-alpha.10", "-rc.1",
                                  "-a-b", "-0", "-01", "-ALPHA", "-1.alpha", "-alpha.beta", "-pre"}, "B"),
    B    |-> T({"", "+build", "+1", "+b.2"}, "END"),
    END  |-> {} ]

CranG ==
  [ S    |-> T({"0", "1", "10", "01", Z23, ZBig64, ZBig65}, "SEP1"),
    SEP1 |-> T({".", "-"}, "N2"),
    N2   |-> T({"0", "1", "9", "10"}, "OPT3"),
    OPT3 |-> T({""}, "END") \cup T({".", "-"}, "N3"),
    N3   |-> T({"0", "1", Big64, "007"}, "OPT4"),
    OPT4 |-> T({""}, "END") \cup T({".", "-"}, "N4"),
    N4   |-> T({"0", "1"}, "OPT5"),
    OPT5 |-> T({""}, "END") \cup T({".1"}, "END"),
    END  |-> {} ]

-----------------------------------------------------------------------------
G(e) ==
  CASE e = "semver"     -> SvG({""}, FALSE)
    [] e = "cargo"      -> SvG({""}, FALSE)
    [] e = "npm"        -> SvGX({"", "v"}, FALSE, {"=", "v=", "=v"})
    [] e = "nuget"      -> SvG({"", "v"}, TRUE)
    [] e = "hex"        -> HexG
    [] e = "golang"     -> GolangG
    [] e = "pypi"       -> PypiG
    [] e = "debian"     -> DebianG
    [] e = "rpm"        -> RpmG
    [] e = "alpm"       -> AlpmG
    [] e = "maven"      -> MavenG
    [] e = "gem"        -> GemG
    [] e = "alpine"     -> AlpineG
    [] e = "gentoo"     -> GentooG
    [] e = "apache"     -> ApacheG
    [] e = "github"     -> GithubG
    [] e = "mattermost" -> MattermostG
    [] e = "composer"   -> ComposerG
    [] e = "conan"      -> ConanG
    [] e = "cran"       -> CranG

Acc(e) ==
  CASE e \in {"semver", "cargo", "npm", "nuget", "hex"} -> SvAcc
    [] e = "golang" -> GolangAcc
    [] OTHER -> {"END"}

\* alpm: 1 = explicit pkgrel, 0 = none.  (pkgrel = the digits after a final "-", go-univers' reading: Alpm!ASplit)
\* 2 = a hyphen followed by something else (pkgver text for go-univers, a pkgrel for libalpm's parseEVR): its own class
Part(e, text) == IF e # "alpm" THEN 0
                 ELSE LET cs == S2C(text)  h == LastIndexOf(cs, 45) IN
                      IF h = 0 THEN 0
                      ELSE IF h < Len(cs) /\ \A i \in h + 1..Len(cs) : IsDigit(cs[i]) THEN 1 ELSE 2

-----------------------------------------------------------------------------
(* The automaton.                                                            *)
VARIABLES eco, phase, text
uvars == <<eco, phase, text>>

UInit(E) == eco \in E /\ phase = "S" /\ text = ""
UNext == \E tr \in G(eco)[phase] :
           /\ text' = text \o tr[1]
           /\ phase' = tr[2]
           /\ eco' = eco
Member == phase \in Acc(eco) /\ text # ""
=============================================================================
