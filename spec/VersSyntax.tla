----------------------------- MODULE VersSyntax -----------------------------
(***************************************************************************)
(* C17: what makes a VERS range string well-formed, on byte codes, and     *)
(* which ecosystem each scheme is evaluated with.                          *)
(***************************************************************************)
EXTENDS Chars, VersSem

SchemeEco == [alpine |-> "alpine", cargo |-> "cargo", deb |-> "debian", gem |-> "gem", generic |-> "semver",
              golang |-> "golang", maven |-> "maven", npm |-> "npm", nuget |-> "nuget", pypi |-> "pypi", rpm |-> "rpm"]
Supported == DOMAIN SchemeEco

VersPrefix == S2C("vers:")
NoSpaces(cs) == SelectSeq(cs, LAMBDA c : c # 32)

\* longest operator prefix of a constraint text: >= <= != then < > =
ConsOp(c) ==
  IF Len(c) >= 2 /\ c[2] = 61 /\ c[1] \in {62, 60, 33} THEN SubSeq(c, 1, 2)
  ELSE IF Len(c) >= 1 /\ c[1] \in {62, 60, 61} THEN SubSeq(c, 1, 1)
  ELSE <<>>

\* everything syntax decides without knowing the ecosystem's version grammar
VParse(s) ==
  LET hasPrefix == Len(s) >= 5 /\ SubSeq(s, 1, 5) = VersPrefix
      printable == \A i \in 1..Len(s) : s[i] >= 32 /\ s[i] <= 126
      rest   == IF hasPrefix THEN SubSeq(s, 6, Len(s)) ELSE <<>>
      slash  == IndexOf(rest, 47)
      scheme == IF slash = 0 THEN <<>> ELSE SubSeq(rest, 1, slash - 1)
      body   == IF slash = 0 THEN <<>> ELSE SubSeq(rest, slash + 1, Len(rest))
      schemeOk == scheme # <<>> /\ \A i \in 1..Len(scheme) : IsLower(scheme[i]) \/ IsDigit(scheme[i])
      parts  == IF body = <<>> THEN <<>> ELSE [i \in 1..Len(SplitAt(body, 124)) |-> NoSpaces(SplitAt(body, 124)[i])]
      cons   == SelectSeq(parts, LAMBDA c : c # <<>>)
      stars  == Cardinality({i \in 1..Len(cons) : cons[i] = <<42>>})
      plain  == SelectSeq(cons, LAMBDA c : c # <<42>>)
      consOk == \A i \in 1..Len(plain) : ConsOp(plain[i]) # <<>> /\ Len(plain[i]) > Len(ConsOp(plain[i])) IN
  [ syntaxOk |-> hasPrefix /\ printable /\ slash # 0 /\ schemeOk /\ cons # <<>> /\ consOk
                 /\ (stars = 0 \/ (stars = 1 /\ plain = <<>>)),
    scheme   |-> IF printable THEN C2S(scheme) ELSE "",
    supported |-> printable /\ C2S(scheme) \in Supported,
    loneStar |-> hasPrefix /\ printable /\ slash # 0 /\ cons # <<>> /\ plain = <<>>,
    cons     |-> IF printable /\ hasPrefix /\ slash # 0 /\ consOk
                 THEN [i \in 1..Len(plain) |-> [op |-> C2S(ConsOp(plain[i])),
                                                v  |-> C2S(SubSeq(plain[i], Len(ConsOp(plain[i])) + 1, Len(plain[i])))]]
                 ELSE <<>> ]

ASSUME VParse(S2C("vers:npm/>=1.0.0|<2.0.0")).syntaxOk
ASSUME VParse(S2C("vers:npm/ >= 1.0.0 | | <2.0.0 ")).cons = <<[op |-> ">=", v |-> "1.0.0"], [op |-> "<", v |-> "2.0.0"]>>
ASSUME ~VParse(S2C("vers:Npm/>=1.0.0")).syntaxOk /\ ~VParse(S2C("vers:npm/1.0.0")).syntaxOk /\ ~VParse(S2C("vers:npm/>=")).syntaxOk
ASSUME ~VParse(S2C("vers:npm/*|>=1.0.0")).syntaxOk /\ ~VParse(S2C("ver:npm/>=1")).syntaxOk /\ ~VParse(S2C("vers:npm")).syntaxOk
ASSUME ~VParse(S2C("vers:/>=1")).syntaxOk /\ ~VParse(S2C("vers:npm/")).syntaxOk /\ ~VParse(S2C("vers:npm/|")).syntaxOk
ASSUME VParse(S2C("vers:npm/*")).loneStar /\ VParse(S2C("vers:npm/!=1.0.0")).cons[1].op = "!="
\* pypi pre-/dev-release probes of C17 (PEP 440's default keeps them out of ranges that name no pre-release; the
\* judge VersWfC17 models that default with Pep440!PIsPre)
PypiPreProbes == {"1.5rc1", "3.0.dev1", "1.1c2"}
=============================================================================
