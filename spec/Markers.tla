------------------------------ MODULE Markers ------------------------------
(***************************************************************************)
(* C03: plain dotted-numeric versions of the same component count order as *)
(* their integer tuples, a pre-release marker makes a version older and a  *)
(* post-release / revision marker newer - in every ecosystem.  This module *)
(* holds, per ecosystem, the component counts it accepts, its pre- and     *)
(* post-release spellings with the documented direction, and the generator *)
(* of comparison vectors (B1).  Markers with no agreed direction           *)
(* (mattermost -esr, alpm pkgrel) are absent by construction.              *)
(***************************************************************************)
EXTENDS Integers, Sequences, FiniteSets, TLC

MEcos == {"alpine", "alpm", "apache", "cargo", "composer", "conan", "cran", "debian", "gem", "gentoo",
          "github", "golang", "hex", "mattermost", "maven", "npm", "nuget", "pypi", "rpm", "semver"}

Arities(e) ==
  CASE e \in {"semver", "cargo", "npm", "golang", "apache", "github", "mattermost"} -> {3}
    [] e = "hex"      -> {2, 3}
    [] e = "nuget"    -> 1..4
    [] e = "composer" -> 1..4
    [] e = "cran"     -> 2..5
    [] OTHER          -> 1..5

PreMarkers(e) ==
  \* known keywords and free-form words no keyword table lists (nightly, preview, M1, x86): in these ecosystems any
  \* identifier after the hyphen makes a pre-release
  CASE e \in {"semver", "cargo", "npm", "hex", "golang", "nuget", "conan"} -> {"-alpha", "-alpha.1", "-rc1", "-rc.1", "-0", "-nightly", "-preview.1", "-M1", "-x86"}
    [] e = "maven"      -> {"-alpha", "-alpha-1", "-rc1", "-SNAPSHOT", ".rc1", "-M1", "-beta-2", "-RC2"}
    [] e = "apache"     -> {"-alpha", "-beta1", "-RC1", "-M1", "-SNAPSHOT", "-dev"}
    [] e = "github"     -> {"-alpha", "-beta.1", "-rc.1", "-rc1", ".rc1", "-pre1", "-M1", "-nightly", "-preview.1", "-b1", "-SNAPSHOT", ".dev1"}
    [] e = "mattermost" -> {"-rc1", "-rc2"}
    [] e = "composer"   -> {"-alpha", "-alpha1", "-beta1", "-RC1", "-rc1", "-beta.1", "-dev"}
    [] e = "gem"        -> {"-alpha", ".pre", ".beta", ".rc1", ".rc.1", ".a", ".nightly", "-java", ".x86"}
    [] e = "pypi"       -> {"a1", "b2", "rc1", ".rc1", ".dev1", "alpha1", "c1"}
    [] e = "debian"     -> {"~rc1", "~", "~~", "~1"}
    [] e = "rpm"        -> {"~rc1", "~", "~1"}
    [] e \in {"alpine", "gentoo"} -> {"_alpha", "_alpha1", "_beta", "_pre1", "_rc1", "_rc"}
    [] e = "alpm"       -> {"rc1", "alpha", "a1", "beta"}
    [] OTHER            -> {}
PostMarkers(e) ==
  CASE e = "maven"   -> {"-sp", "-1", "-sp-1"}
    [] e = "composer"-> {"-patch1", "-p1"}
    [] e = "pypi"    -> {".post1", ".rev1", ".r1", "post1"}
    [] e = "debian"  -> {"-1", "+b1", "+dfsg", "-0+b1"}
    [] e = "rpm"     -> {"-1", "^git1", "-1.el8"}
    [] e = "alpine"  -> {"_p1", "-r1", "_git1", "_cvs", "_svn1", "_hg2", "_p"}
    [] e = "gentoo"  -> {"_p1", "-r1", "_p"}
    [] OTHER         -> {}

\* boundary values of the property, and the contexts the differing position is embedded in
BV == {0, 1, 2, 9, 10, 11, 99, 100, 999, 1000, 65535, 2147483647}
Ctx(k, c) == [i \in 1..k |-> IF c = 1 THEN 1 ELSE IF c = 2 THEN 0 ELSE <<2, 10, 0, 7, 100>>[i]]

RECURSIVE Dot(_)
Dot(t) == IF Len(t) = 1 THEN ToString(t[1]) ELSE ToString(t[1]) \o "." \o Dot(Tail(t))
Prefix(e) == IF e = "golang" THEN "v" ELSE ""
TupText(e, t) == Prefix(e) \o Dot(t)

\* github: inputs shaped like dates are compared only among themselves (not generated here)
DateShaped(t) == Len(t) = 3 /\ t[1] >= 1000 /\ t[1] <= 9999 /\ t[2] <= 99 /\ t[3] <= 99

Sgn(n) == IF n < 0 THEN -1 ELSE IF n > 0 THEN 1 ELSE 0
\* bases of the marker rows: all ones, mixed magnitudes, 1.0.0..., the all-zero version (the lowest release) and a
\* base whose last component is 2^31 - 1
MarkerBases(k) == {Ctx(k, 1), Ctx(k, 3), [Ctx(k, 2) EXCEPT ![1] = 1], Ctx(k, 2), [Ctx(k, 1) EXCEPT ![k] = 2147483647]}
MarkerVecs(e) ==
  UNION {{[eco |-> e, kind |-> "pre", a |-> TupText(e, t) \o m, b |-> TupText(e, t), want |-> -1]
            : t \in MarkerBases(k), m \in PreMarkers(e)}
         \cup {[eco |-> e, kind |-> "post", a |-> TupText(e, t) \o m, b |-> TupText(e, t), want |-> 1]
            : t \in MarkerBases(k), m \in PostMarkers(e)} : k \in Arities(e)}

\* the generator: one step picks (arity, position, values, context) or a marker row
VARIABLES meco, mvec
mvars == <<meco, mvec>>
MInit(E) == meco \in E /\ mvec = <<>>
MNext(ctxs) ==
  /\ mvec = <<>> /\ meco' = meco
  /\ \/ \E k \in Arities(meco), p \in 1..5, x \in BV, y \in BV, c \in ctxs :
          /\ p <= k
          /\ LET t1 == [Ctx(k, c) EXCEPT ![p] = x]  t2 == [Ctx(k, c) EXCEPT ![p] = y] IN
             /\ ~(meco = "github" /\ (DateShaped(t1) \/ DateShaped(t2)))
             /\ mvec' = [eco |-> meco, kind |-> "tuple", a |-> TupText(meco, t1), b |-> TupText(meco, t2), want |-> Sgn(x - y)]
     \/ \E v \in MarkerVecs(meco) : mvec' = v
=============================================================================
