-------------------------------- MODULE Vers --------------------------------
(***************************************************************************)
(* VERS containment as a pipeline with real intermediate states: the       *)
(* normative pairwise sweep over the position-sorted constraints is a step *)
(* machine (variables below); TLC checks for every well-formed range and   *)
(* every probe position that the sweep ends in the denotation Den          *)
(* (design-level model checking of the algorithm the implementation must   *)
(* follow).  The same exploration emits every (range, probes) vector with  *)
(* the concrete text rendered from the per-scheme version chains.          *)
(***************************************************************************)
EXTENDS VersSem

CONSTANTS K,            \* number of bound positions (bounds at 1,3,..,2K-1; probes 0..2K)
          Schemes,      \* the schemes to render vectors for
          ChainNo       \* which family of concrete chains renders the vectors (1 or 2)

\* strictly increasing chains of 17 concrete versions per scheme (position p <-> chain[p + 1]);
\* strict monotonicity under the real Compare is re-checked by every run (else exit 2)
SemverChain == <<"0.1.0", "0.2.0", "1.0.0-alpha", "1.0.0-beta", "1.0.0", "1.0.1", "1.1.0", "1.10.0", "2.0.0-rc.1",
                 "2.0.0", "2.0.1", "2.1.0", "3.0.0", "3.0.1", "10.0.0", "10.1.0", "11.0.0">>
Chain(s) ==
  CASE s \in {"npm", "cargo", "generic", "nuget"} -> SemverChain
    [] s = "golang" -> [i \in 1..17 |-> "v" \o SemverChain[i]]
    [] s = "pypi"   -> <<"0.1", "0.2", "1.0", "1.0.post1", "1.0.1", "1.1", "1.10", "2.0", "2.0.post1", "2.0.1", "2.1",
                         "3.0", "3.0.1", "10.0", "10.1", "11.0", "1!0.1">>
    [] s = "deb"    -> <<"0.9", "1.0~rc1", "1.0", "1.0-1", "1.0-2", "1.0.1", "1.1", "1.10", "2.0~beta1", "2.0", "2.0-1",
                         "2.0+dfsg-1", "2.1", "3.0", "10.0", "1:0.1", "1:1.0">>
    [] s = "rpm"    -> <<"0.9", "1.0~rc1", "1.0", "1.0-1.el8", "1.0-2.el8", "1.0.1", "1.1", "1.10", "2.0~beta1", "2.0",
                         "2.0-1", "2.0-2", "2.1", "3.0", "10.0", "1:0.1", "1:1.0">>
    [] s = "maven"  -> <<"0.9", "1.0-alpha-1", "1.0-beta-1", "1.0-rc1", "1.0", "1.0.1", "1.1", "1.10", "2.0-SNAPSHOT",
                         "2.0", "2.0.1", "2.1", "3.0", "3.0.1", "10.0", "10.1", "11.0">>
    [] s = "gem"    -> <<"0.9", "1.0.0.alpha", "1.0.0.beta", "1.0.0", "1.0.1", "1.1.0", "1.10.0", "2.0.0.rc1", "2.0.0",
                         "2.0.1", "2.1.0", "3.0.0", "3.0.1", "10.0.0", "10.1.0", "11.0.0", "12.0.0">>
    [] s = "alpine" -> <<"0.9", "1.0_alpha1", "1.0_rc1", "1.0", "1.0-r1", "1.0_p1", "1.1", "1.10", "2.0_beta1", "2.0",
                         "2.0-r1", "2.1", "3.0", "3.0.1", "10.0", "10.1", "11.0">>
\* second family: the same idea with other spellings - build metadata (with an "x" in it), prefixes, explicit zero
\* epochs, letter case, hyphen vs dot, and for pypi pre-/dev-releases as bounds and probes
SemverChain2 == <<"0.1.0", "0.2.0+x64", "1.0.0-alpha", "1.0.0-beta.2+exp.sha.5114f85", "1.0.0", "1.0.1+build.X", "1.1.0", "1.10.0+linux.x86-64",
                  "2.0.0-rc.1", "2.0.0+x", "2.0.1", "2.1.0+001", "3.0.0", "3.0.1+b", "10.0.0", "10.1.0", "11.0.0">>
Chain2(s) ==
  CASE s \in {"cargo", "generic"} -> SemverChain2
    [] s \in {"npm", "nuget"} -> [i \in 1..17 |-> IF i \in {2, 3, 8, 11} THEN "v" \o SemverChain2[i] ELSE SemverChain2[i]]
    [] s = "golang" -> [i \in 1..17 |-> IF i % 2 = 0 THEN SemverChain[i] ELSE "v" \o SemverChain[i] \o (IF i \in {5, 10, 13} THEN "+incompatible" ELSE "")]
    \* local labels spelled with the letters of pre-release markers (ubuntu, deb, src, .a.) are not pre-releases;
    \* "c" is PEP 440's alternative spelling of "rc"
    [] s = "pypi"   -> <<"0.1", "1.0+ubuntu1", "1.1a1", "1.1b2", "1.1c1", "1.1", "2.0.dev2", "2.0rc1", "2.0+deb.1", "2.0.post1+1.a.1",
                         "3.0c1", "3.0+src.1", "3.0.1", "10.0", "10.1", "11.0", "1!0.1">>
    \* a bound without revision / release directly below the same upstream version with one (1.0 < 1.0-1)
    [] s = "deb"    -> <<"0:0.9", "1.0", "1.0-1", "0:1.0-1+b1", "1.0.1~rc1", "1.0.1", "0:1.1", "1.10", "2.0~beta1", "2.0", "0:2.0-1",
                         "2.0+dfsg-1", "2.1", "3.0", "10.0", "1:0.1", "01:1.0">>
    [] s = "rpm"    -> <<"0:0.9", "1.0", "1.0-1.el8", "0:1.0-2.el8", "1.0.1~rc1", "1.0.1", "0:1.1", "1.10", "2.0~beta1", "2.0",
                         "0:2.0-1", "2.0-2", "2.1", "3.0", "10.0", "1:0.1", "1:1.0">>
    [] s = "maven"  -> <<"0.9", "1.0-ALPHA-1", "1.0-Beta-1", "1.0-RC1", "1.0.Final", "1.0.1", "1.1-ga", "1.10", "2.0-snapshot",
                         "2.0", "2.0.1", "2.1", "3.0", "3.0.1", "10.0", "10.1", "11.0">>
    [] s = "gem"    -> <<"0.9", "1.0.0-alpha", "1.0.0-beta", "1.0", "1.0.1", "1.1", "1.10.0", "2.0.0-rc1", "2", "2.0.1", "2.1.0",
                         "3.0.0", "3.0.1", "10.0.0", "10.1.0", "11.0.0", "12">>
    [] s = "alpine" -> <<"0.9", "1.0_alpha1", "1.0_rc1", "1.0", "1.0-r1", "1.0_p1", "1.1", "1.10", "2.0_beta1", "2.0",
                         "2.0-r1", "2.1", "3.0", "3.0.1", "10.0", "10.1", "11.0">>
\* chain positions (0-based) holding a pypi pre-/dev-release in the second family
PypiPrePos2 == {2, 3, 4, 6, 7, 10}
\* third family: anchored at the zero version - its pre-release, zero itself, the first thing above it - then the same
\* pattern around 0.1 and 1; pre-release words no keyword table knows (java, x86) where qualifiers are free-form.
\* Nine members: bound positions up to K = 4.
SemverChain3 == <<"0.0.0-java", "0.0.0", "0.0.1", "0.1.0-x86", "0.1.0", "0.1.1", "1.0.0-java", "1.0.0", "1.0.1">>
Chain3(s) ==
  CASE s \in {"cargo", "generic", "npm", "nuget"} -> SemverChain3
    [] s = "golang" -> [i \in 1..9 |-> "v" \o SemverChain3[i]]
    [] s = "pypi"   -> <<"0.dev1", "0", "0.post1", "0.1a1", "0.1", "0.1.post1", "1a1", "1", "1.post1">>
    [] s = "deb"    -> <<"0~java", "0", "0-1", "0.1~x86", "0.1", "0.1-1", "1~java", "1", "1-1">>
    [] s = "rpm"    -> <<"0~java", "0", "0-1", "0.1~x86", "0.1", "0.1-1", "1~java", "1", "1-1">>
    [] s = "maven"  -> <<"0-alpha", "0", "0.0.1", "0.1-alpha", "0.1", "0.1.1", "1-alpha", "1", "1.0.1">>
    [] s = "gem"    -> <<"0-java", "0", "0.0.1", "0.1-x86", "0.1", "0.1.1", "1-java", "1", "1.0.1">>
    [] s = "alpine" -> <<"0_alpha1", "0", "0-r1", "0.1_rc1", "0.1", "0.1-r1", "1_alpha1", "1", "1-r1">>
PypiPrePos3 == {0, 3, 6}
TheChain(s) == IF ChainNo = 1 THEN Chain(s) ELSE IF ChainNo = 2 THEN Chain2(s) ELSE Chain3(s)
ThePrePos == IF ChainNo = 3 THEN PypiPrePos3 ELSE PypiPrePos2
AllSchemes == {"alpine", "cargo", "deb", "gem", "generic", "golang", "maven", "npm", "nuget", "pypi", "rpm"}

VARIABLES ops,      \* the range: ops[j] is the comparator on bound j (position 2j-1), "" if the bound is unused
          probe,    \* probe position 0..2K
          idx,      \* sweep: index into the sorted range comparators (0 = not started)
          acc,      \* sweep: accumulated answer
          phase     \* "pick" | "sweep" | "done"
vvars == <<ops, probe, idx, acc, phase>>

Cs(o) == LET J == {j \in 1..K : o[j] # ""}
             RECURSIVE B(_)
             B(S) == IF S = {} THEN <<>>
                     ELSE LET m == CHOOSE x \in S : \A y \in S : x <= y IN
                          <<[op |-> o[m], pos |-> 2 * m - 1]>> \o B(S \ {m})
         IN B(J)

VInit == /\ ops \in [1..K -> VersOps \cup {""}]
         /\ (\E j \in 1..K : ops[j] # "")
         /\ Alternates(Cs(ops))
         /\ probe \in 0..2 * K
         /\ idx = 0 /\ acc = FALSE /\ phase = "pick"

VSat(op, p, pos) == CASE op = "<" -> p < pos [] op = "<=" -> p <= pos [] op = ">" -> p > pos [] op = ">=" -> p >= pos
                     [] op = "=" -> p = pos [] op = "!=" -> p # pos

\* the normative algorithm: equality and exclusion first, then one pass over the sorted range comparators
Start ==
  /\ phase = "pick"
  /\ LET cs == Cs(ops) IN
     IF \E i \in 1..Len(cs) : cs[i].op = "!=" /\ cs[i].pos = probe
     THEN acc' = FALSE /\ phase' = "done" /\ idx' = idx
     ELSE IF \E i \in 1..Len(cs) : cs[i].op = "=" /\ cs[i].pos = probe
     THEN acc' = TRUE /\ phase' = "done" /\ idx' = idx
     ELSE IF RangeOps(cs) = <<>>
     THEN acc' = (\A i \in 1..Len(cs) : cs[i].op = "!=") /\ phase' = "done" /\ idx' = idx
     ELSE acc' = FALSE /\ phase' = "sweep" /\ idx' = 1
  /\ UNCHANGED <<ops, probe>>
Step ==
  /\ phase = "sweep"
  /\ LET r == RangeOps(Cs(ops))
         c == r[idx]
         first == idx = 1 /\ IsUpperOp(c.op) /\ VSat(c.op, probe, c.pos)
         last  == idx = Len(r) /\ IsLowerOp(c.op) /\ VSat(c.op, probe, c.pos)
         pair  == idx < Len(r) /\ IsLowerOp(c.op) /\ IsUpperOp(r[idx + 1].op)
                  /\ VSat(c.op, probe, c.pos) /\ VSat(r[idx + 1].op, probe, r[idx + 1].pos) IN
     IF first \/ last \/ pair THEN acc' = TRUE /\ phase' = "done" /\ idx' = idx
     ELSE IF idx = Len(r) THEN acc' = FALSE /\ phase' = "done" /\ idx' = idx
     ELSE acc' = acc /\ phase' = "sweep" /\ idx' = idx + 1
  /\ UNCHANGED <<ops, probe>>
VNext == Start \/ Step
VSpec == VInit /\ [][VNext]_vvars

\* C04 at design level: the sweep computes the union of intervals
SweepIsDen == phase = "done" => acc = VDen(Cs(ops), probe)
\* and it is the same thing as asking every constraint group by group (single-constraint = that comparator)
SingleIsComparator == (phase = "done" /\ Cardinality({j \in 1..K : ops[j] # ""}) = 1) =>
                         LET c == Cs(ops)[1] IN acc = VSat(c.op, probe, c.pos)

\* rendering
RECURSIVE JoinBar(_)
JoinBar(q) == IF q = <<>> THEN "" ELSE IF Len(q) = 1 THEN q[1] ELSE q[1] \o "|" \o JoinBar(Tail(q))
VersText(s, cs) == "vers:" \o s \o "/" \o JoinBar([i \in 1..Len(cs) |-> cs[i].op \o TheChain(s)[cs[i].pos + 1]])
=============================================================================
