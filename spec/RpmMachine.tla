----------------------------- MODULE RpmMachine -----------------------------
(***************************************************************************)
(* rpmvercmp() as the cursor machine it is in C (rpmio/rpmvercmp.c): two   *)
(* cursors, skip separators, handle '~' and '^', cut one maximal numeric   *)
(* or alphabetic segment from each side, compare, repeat.  TLC explores it *)
(* for every pair of strings up to a bounded length and checks that it     *)
(* terminates with the value of the recursive operator Rpmvercmp of        *)
(* Rpm.tla.                                                                *)
(***************************************************************************)
EXTENDS Rpm

CONSTANTS RAlphabet, RMaxLen

RECURSIVE RStringsUpTo(_)
RStringsUpTo(n) == IF n = 0 THEN {<<>>} ELSE RStringsUpTo(n - 1) \cup {Append(s, c) : s \in {t \in RStringsUpTo(n - 1) : Len(t) = n - 1}, c \in RAlphabet}

VARIABLES ra, rb, ri, rj, rph, rres
rmvars == <<ra, rb, ri, rj, rph, rres>>
RMInit == /\ ra \in RStringsUpTo(RMaxLen) /\ rb \in RStringsUpTo(RMaxLen)
          /\ ri = 1 /\ rj = 1 /\ rph = "top" /\ rres = 0

CA == RAt(ra, ri)
CB == RAt(rb, rj)
Top ==      \* loop test and the rstreq shortcut
  /\ rph = "top"
  /\ IF ra = rb THEN rph' = "done" /\ rres' = 0 /\ UNCHANGED <<ri, rj>>
     ELSE IF ri > Len(ra) /\ rj > Len(rb) THEN rph' = "done" /\ rres' = 0 /\ UNCHANGED <<ri, rj>>
     ELSE rph' = "skip" /\ UNCHANGED <<ri, rj, rres>>
  /\ UNCHANGED <<ra, rb>>
Skip ==     \* step over separators, one character at a time
  /\ rph = "skip"
  /\ IF ri <= Len(ra) /\ RSep(CA) THEN ri' = ri + 1 /\ UNCHANGED <<rj, rph>>
     ELSE IF rj <= Len(rb) /\ RSep(CB) THEN rj' = rj + 1 /\ UNCHANGED <<ri, rph>>
     ELSE rph' = "special" /\ UNCHANGED <<ri, rj>>
  /\ UNCHANGED <<ra, rb, rres>>
Special ==  \* tilde, caret, end of either string
  /\ rph = "special"
  /\ IF CA = 126 \/ CB = 126 THEN
        (IF CA # 126 THEN rph' = "done" /\ rres' = 1 /\ UNCHANGED <<ri, rj>>
         ELSE IF CB # 126 THEN rph' = "done" /\ rres' = -1 /\ UNCHANGED <<ri, rj>>
         ELSE ri' = ri + 1 /\ rj' = rj + 1 /\ rph' = "loop" /\ UNCHANGED rres)
     ELSE IF CA = 94 \/ CB = 94 THEN
        (IF CA = 0 THEN rph' = "done" /\ rres' = -1 /\ UNCHANGED <<ri, rj>>
         ELSE IF CB = 0 THEN rph' = "done" /\ rres' = 1 /\ UNCHANGED <<ri, rj>>
         ELSE IF CA # 94 THEN rph' = "done" /\ rres' = 1 /\ UNCHANGED <<ri, rj>>
         ELSE IF CB # 94 THEN rph' = "done" /\ rres' = -1 /\ UNCHANGED <<ri, rj>>
         ELSE ri' = ri + 1 /\ rj' = rj + 1 /\ rph' = "loop" /\ UNCHANGED rres)
     ELSE IF CA = 0 \/ CB = 0 THEN
        rph' = "done" /\ rres' = (IF CA = 0 /\ CB = 0 THEN 0 ELSE IF CA # 0 THEN 1 ELSE -1) /\ UNCHANGED <<ri, rj>>
     ELSE rph' = "segment" /\ UNCHANGED <<ri, rj, rres>>
  /\ UNCHANGED <<ra, rb>>
LoopTest == \* while (*one || *two) after a tilde / caret step
  /\ rph = "loop"
  /\ IF ri > Len(ra) /\ rj > Len(rb) THEN rph' = "done" /\ rres' = 0 ELSE rph' = "skip" /\ UNCHANGED rres
  /\ UNCHANGED <<ra, rb, ri, rj>>
Segment ==  \* cut one maximal segment from each side and compare
  /\ rph = "segment"
  /\ LET isnum == IsDigit(CA)
         In(c) == IF isnum THEN IsDigit(c) ELSE IsAlpha(c)
         ea == FirstNotAt(ra, ri, In)
         eb == FirstNotAt(rb, rj, In)
         xa == SubSeq(ra, ri, ea - 1)
         xb == SubSeq(rb, rj, eb - 1) IN
     IF xb = <<>> THEN rph' = "done" /\ rres' = (IF isnum THEN 1 ELSE -1) /\ UNCHANGED <<ri, rj>>
     ELSE LET c == IF isnum THEN NumCmp(xa, xb) ELSE LexCmp(xa, xb) IN
          IF c # 0 THEN rph' = "done" /\ rres' = c /\ UNCHANGED <<ri, rj>>
          ELSE ri' = ea /\ rj' = eb /\ rph' = "loop" /\ UNCHANGED rres
  /\ UNCHANGED <<ra, rb>>
RMNext == Top \/ Skip \/ Special \/ LoopTest \/ Segment
RMSpec == RMInit /\ [][RMNext]_rmvars /\ WF_rmvars(RMNext)

RMachineAgrees == rph = "done" => rres = Rpmvercmp(ra, rb)
RTerminates == <>(rph = "done")
=============================================================================
