------------------------------ MODULE Totality ------------------------------
(***************************************************************************)
(* C06: generators for the totality check.                                 *)
(*  - the string-builder machine: a state is a byte string over the        *)
(*    syntax-relevant alphabet Sigma, a transition appends one byte; every  *)
(*    state of length <= L is one input for every entry point;             *)
(*  - the long-input families: a unit repeated up to a length, with an     *)
(*    optional prefix / suffix (digit runs, separator runs, alternating    *)
(*    runs, bracket and operator runs).                                    *)
(* The contract itself (which outcomes exist) is Api.tla.                  *)
(***************************************************************************)
EXTENDS TotalitySem, Sequences, FiniteSets, TLC

CONSTANTS Sigma,     \* set of byte codes
          L          \* maximum length

VARIABLE buf
TotInit == buf = <<>>
Append1 == Len(buf) < L /\ \E b \in Sigma : buf' = Append(buf, b)
TotSpec == TotInit /\ [][Append1]_buf

\* long inputs: <<unit, prefix, suffix>> as code sequences, crossed with the lengths
Units == { <<49>>, <<48>>, <<46>>, <<45>>, <<126>>, <<43>>, <<95>>, <<94>>, <<32>>, <<124>>, <<44>>, <<40>>, <<91>>, <<62>>, <<61>>, <<42>>, <<120>>, <<97>>,
           <<49, 46>>, <<49, 45>>, <<49, 97>>, <<97, 49>>, <<46, 49, 97>>, <<62, 61, 49, 32>>, <<49, 124>>, <<49, 46, 48, 44>>, <<45, 97, 46>>,
           <<126, 49>>, <<94, 49>>, <<49, 32, 124, 124, 32>>, <<58>>, <<49, 58>>, <<33>>, <<195, 169>>, <<255>> }
Wraps == { <<<<>>, <<>>>>, <<<<49, 46>>, <<>>>>, <<<<62, 61>>, <<>>>>, <<<<49, 46, 48, 45>>, <<>>>>, <<<<91>>, <<93>>>>, <<<<>>, <<46, 49>>>>, <<<<94>>, <<>>>> }
Lengths == {1000, 12500, 25000, 50000, 100000}

=============================================================================
