-------------------------------- MODULE Apk --------------------------------
(***************************************************************************)
(* Reference order of Alpine versions: apk-tools' src/version.c            *)
(* (next_token / get_token / apk_version_compare_blob), transcribed as a   *)
(* token machine on code sequences.  No apk on this image: the audit is    *)
(* apk-tools' own test table version.data, a copy of which ships in the    *)
(* repository (pkg/ecosystem/alpine/testdata/compare.txt) and is replayed  *)
(* against this module by `vcheck audit C14` and on every C14 run.         *)
(***************************************************************************)
EXTENDS Chars

TI == -1  TDZ == 0  TD == 1  TL == 2  TS == 3  TSN == 4  TR == 5  TE == 6

PreSuf  == <<S2C("alpha"), S2C("beta"), S2C("pre"), S2C("rc")>>
PostSuf == <<S2C("cvs"), S2C("svn"), S2C("git"), S2C("hg"), S2C("p")>>
HasPrefixAt(s, p, w) == p + Len(w) - 1 <= Len(s) /\ SubSeq(s, p, p + Len(w) - 1) = w

\* token values: [k |-> "n", d |-> digits]  (a non-negative number of any length)
\*               [k |-> "i", n |-> int]     (letter code, suffix rank, -count of leading zeros, -1 invalid)
VNum(d) == [k |-> "n", d |-> d, n |-> 0]
VInt(n) == [k |-> "i", d |-> <<>>, n |-> n]
ValCmp(a, b) ==
  IF a.k = "n" /\ b.k = "n" THEN NumCmp(a.d, b.d)
  ELSE IF a.k = "i" /\ b.k = "i" THEN Sign(a.n - b.n)
  ELSE IF a.k = "i" THEN (IF a.n < 0 THEN -1 ELSE 1)     \* only "-zeros" meets a number
  ELSE (IF b.n < 0 THEN 1 ELSE -1)
ValNeg(v) == v.k = "i" /\ v.n < 0

\* next_token: classify what follows position p given the previous token type
NextTok(type, s, p) ==
  IF p > Len(s) THEN <<TE, p>>
  ELSE
  LET c == s[p]
      r == IF type \in {TD, TDZ} /\ IsLower(c) THEN <<TL, p>>
           ELSE IF type = TL /\ IsDigit(c) THEN <<TD, p>>
           ELSE IF type = TS /\ IsDigit(c) THEN <<TSN, p>>
           ELSE IF c = 46 THEN <<TDZ, p + 1>>
           ELSE IF c = 95 THEN <<TS, p + 1>>
           ELSE IF c = 45 THEN (IF p + 1 <= Len(s) /\ s[p + 1] = 114 THEN <<TR, p + 2>> ELSE <<TI, p + 1>>)
           ELSE <<TI, p + 1>>
      n == r[1] IN
  IF n < type /\ ~((n = TDZ /\ type = TD) \/ (n = TS /\ type = TSN) \/ (n = TD /\ type = TL))
  THEN <<TI, r[2]>> ELSE r

\* get_token: value of the token of the given type at p, the type of the following token and its position
GetTok(type, s, p) ==
  IF p > Len(s) THEN [v |-> VInt(0), t |-> TE, p |-> p]
  ELSE
  LET fin(v, q, nt) ==
        IF q > Len(s) THEN [v |-> v, t |-> TE, p |-> q]
        ELSE IF nt # TI THEN [v |-> v, t |-> nt, p |-> q]
        ELSE LET r == NextTok(type, s, q) IN [v |-> v, t |-> r[1], p |-> r[2]]
      digits == LET e == FirstNotAt(s, p, IsDigit) IN fin(VNum(SubSeq(s, p, e - 1)), e, TI) IN
  CASE type = TDZ /\ s[p] = 48 ->
         LET e == FirstNotAt(s, p, LAMBDA c : c = 48) IN fin(VInt(-(e - p)), e, TD)
    [] type \in {TDZ, TD, TSN, TR} -> digits
    [] type = TL -> fin(VInt(s[p]), p + 1, TI)
    [] type = TS ->
         LET P == {k \in 1..4 : HasPrefixAt(s, p, PreSuf[k])}
             Q == {k \in 1..5 : HasPrefixAt(s, p, PostSuf[k])} IN
         IF P # {} THEN LET k == MinOf(P) IN fin(VInt(k - 1 - 4), p + Len(PreSuf[k]), TI)
         ELSE IF Q # {} THEN LET k == MinOf(Q) IN fin(VInt(k - 1), p + Len(PostSuf[k]), TI)
         ELSE [v |-> VInt(-1), t |-> TI, p |-> p]
    [] OTHER -> [v |-> VInt(-1), t |-> TI, p |-> p]

RECURSIVE ApkLoop(_, _, _, _, _, _, _, _)
ApkLoop(a, at, ap, av, b, bt, bp, bv) ==
  IF at = bt /\ at # TE /\ at # TI /\ ValCmp(av, bv) = 0
  THEN LET x == GetTok(at, a, ap)  y == GetTok(bt, b, bp) IN
       ApkLoop(a, x.t, x.p, x.v, b, y.t, y.p, y.v)
  ELSE LET c == ValCmp(av, bv) IN
       IF c # 0 THEN c
       ELSE IF at = bt THEN 0
       ELSE IF at = TS /\ ValNeg(GetTok(TS, a, ap).v) THEN -1
       ELSE IF bt = TS /\ ValNeg(GetTok(TS, b, bp).v) THEN 1
       ELSE IF at > bt THEN -1 ELSE IF bt > at THEN 1 ELSE 0
ApkCmp(a, b) == ApkLoop(a, TD, 1, VInt(0), b, TD, 1, VInt(0))

-----------------------------------------------------------------------------
(* The quantifier of C14: digits{.digits}[letter]{_suffix[digits]}[-rN] with   *)
(* the nine known suffix names, no leading zeros, no ~hash; a pair is claimed  *)
(* only when both sides have the same number of numeric components.  The       *)
(* revision: apk ranks "no -rN" below "-r0"; go-univers documents a missing    *)
(* revision as 0 - pairs that differ only by "absent vs -r0" are not claimed.  *)
RECURSIVE ApkNumEnd(_, _, _)
ApkNumEnd(s, i, k) ==     \* s[i] is a digit; returns <<end, components, no-leading-zero>>
  LET e  == FirstNotAt(s, i, IsDigit)
      ok == (e - i = 1) \/ s[i] # 48 IN
  IF e + 1 <= Len(s) /\ s[e] = 46 /\ IsDigit(s[e + 1])
  THEN LET r == ApkNumEnd(s, e + 1, k + 1) IN <<r[1], r[2], ok /\ r[3]>>
  ELSE <<e, k, ok>>
RECURSIVE ApkSufOk(_, _)
ApkSufOk(s, p) ==          \* from p: {_suffix[digits]}[-rN] to the end
  IF p > Len(s) THEN TRUE
  ELSE IF s[p] = 95 THEN
       LET K == {k \in 1..4 : HasPrefixAt(s, p + 1, PreSuf[k])}
           Q == {k \in 1..5 : HasPrefixAt(s, p + 1, PostSuf[k])}
           w == IF K # {} THEN PreSuf[MinOf(K)] ELSE IF Q # {} THEN PostSuf[MinOf(Q)] ELSE <<>> IN
       /\ w # <<>>
       /\ LET q == p + 1 + Len(w)
              e == FirstNotAt(s, q, IsDigit) IN
          (e > Len(s) \/ s[e] \in {95, 45}) /\ ApkSufOk(s, e)
  ELSE /\ s[p] = 45 /\ p + 2 <= Len(s) /\ s[p + 1] = 114
       /\ AllDigits(SubSeq(s, p + 2, Len(s)))
ApkShape(s) ==
  IF s = <<>> \/ ~IsDigit(s[1]) THEN [ok |-> FALSE, comps |-> 0]
  ELSE LET r == ApkNumEnd(s, 1, 1)
           e == r[1]
           p == IF e <= Len(s) /\ IsLower(s[e]) THEN e + 1 ELSE e IN
       [ok |-> r[3] /\ ApkSufOk(s, p), comps |-> r[2]]
\* --- the property's own reading, as a second oracle ------------------------------------------------
\* numeric components, then the letter (none first), then the suffix lists position by position
\* (rank, then number, a missing number being 0; an additional pre-release suffix makes a version
\* older, an additional post-release suffix newer), then the revision (missing = 0).
RECURSIVE ApkSufList(_, _)
ApkSufList(s, p) ==        \* from p (at '_' or '-' or end): sequence of <<rank, number digits>>
  IF p > Len(s) \/ s[p] # 95 THEN <<>>
  ELSE LET K == {k \in 1..4 : HasPrefixAt(s, p + 1, PreSuf[k])}
           Q == {k \in 1..5 : HasPrefixAt(s, p + 1, PostSuf[k])}
           rank == IF K # {} THEN MinOf(K) - 5 ELSE MinOf(Q)           \* alpha..rc = -4..-1, cvs..p = 1..5
           w == IF K # {} THEN PreSuf[MinOf(K)] ELSE PostSuf[MinOf(Q)]
           q == p + 1 + Len(w)
           e == FirstNotAt(s, q, IsDigit) IN
       <<<<rank, SubSeq(s, q, e - 1)>>>> \o ApkSufList(s, e)
ApkIdealKey(s) ==
  LET r  == ApkNumEnd(s, 1, 1)
      e  == r[1]
      hasL == e <= Len(s) /\ IsLower(s[e])
      p  == IF hasL THEN e + 1 ELSE e
      H  == {i \in 1..Len(s) - 1 : s[i] = 45 /\ s[i + 1] = 114} IN
  [ comps  |-> SplitAt(SubSeq(s, 1, e - 1), 46),
    letter |-> IF hasL THEN s[e] ELSE 0,
    sufs   |-> ApkSufList(s, p),
    rev    |-> IF H = {} THEN <<>> ELSE SubSeq(s, MinOf(H) + 2, Len(s)) ]
ApkSufCmp(a, b) == IF a[1] # b[1] THEN Sign(a[1] - b[1]) ELSE NumCmp(a[2], b[2])
ApkIdealCmp(x, y) ==
  LET c1 == SeqCmp(x.comps, y.comps, NumCmp)
      c2 == Sign(x.letter - y.letter)
      n  == Min2(Len(x.sufs), Len(y.sufs))
      D  == {i \in 1..n : ApkSufCmp(x.sufs[i], y.sufs[i]) # 0}
      c3 == IF D # {} THEN ApkSufCmp(x.sufs[MinOf(D)], y.sufs[MinOf(D)])
            ELSE IF Len(x.sufs) = Len(y.sufs) THEN 0
            ELSE IF Len(x.sufs) > n THEN (IF x.sufs[n + 1][1] < 0 THEN -1 ELSE 1)
            ELSE (IF y.sufs[n + 1][1] < 0 THEN 1 ELSE -1)
      c4 == NumCmp(x.rev, y.rev) IN
  IF c1 # 0 THEN c1 ELSE IF c2 # 0 THEN c2 ELSE IF c3 # 0 THEN c3 ELSE c4

ApkInScope(s) == ApkShape(s).ok
ApkKey(s) == IF ApkShape(s).ok
             THEN [s |-> s, comps |-> ApkShape(s).comps, ideal |-> ApkIdealKey(s),
                   hasRev |-> \E i \in 1..Len(s) - 1 : s[i] = 45 /\ s[i + 1] = 114]
             ELSE [s |-> s, comps |-> 0, ideal |-> <<>>, hasRev |-> FALSE]
\* absent revision counts as -r0 (go-univers' documented reading)
ApkNorm(k) == IF k.hasRev THEN k.s ELSE k.s \o S2C("-r0")
\* A pair is claimed when both sides have the same number of numeric components and apk-tools' token
\* machine agrees with the property's own reading (they differ on a numbered suffix against an
\* un-numbered one followed by a further suffix, which no available reference can settle); 2 = not claimed.
ApkCmpKey(x, y) ==
  IF x.comps # y.comps \/ x.comps = 0 THEN 2
  ELSE LET m == ApkCmp(ApkNorm(x), ApkNorm(y))
           i == ApkIdealCmp(x.ideal, y.ideal) IN
       IF m = i THEN m ELSE 2

\* statements of the property, under the documented reading "missing revision = -r0"
APT(a, b, r) == ApkCmpKey(ApkKey(S2C(a)), ApkKey(S2C(b))) = r
ASSUME /\ APT("1.0", "1.1", -1) /\ APT("1.0", "1.0a", -1) /\ APT("1.0_alpha", "1.0", -1) /\ APT("1.0_alpha", "1.0_beta", -1)
       /\ APT("1.0_beta", "1.0_pre", -1) /\ APT("1.0_pre", "1.0_rc", -1) /\ APT("1.0_rc", "1.0", -1) /\ APT("1.0", "1.0_cvs", -1)
       /\ APT("1.0_cvs", "1.0_svn", -1) /\ APT("1.0_svn", "1.0_git", -1) /\ APT("1.0_git", "1.0_hg", -1) /\ APT("1.0_hg", "1.0_p", -1)
       /\ APT("1.0_p1", "1.0_p2", -1) /\ APT("1.0-r1", "1.0-r2", -1) /\ APT("1.0_alpha_p1", "1.0_alpha", 1)
       /\ APT("1.0_p1_rc1", "1.0_p1", -1) /\ APT("1.0", "1.0-r0", 0) /\ APT("1.1", "1.1_alpha1", 1)
       /\ APT("1.0", "1.0.0", 2) /\ APT("1.2", "1.2-r1", -1) /\ APT("1.0a", "1.0_rc1", 1) /\ APT("2147483648.1", "2147483647.9", 1)
=============================================================================
