------------------------------ MODULE MC_Tokens ------------------------------
(* Exploration of the token-sequence machine of Tokens.tla: every state is one candidate text. *)
EXTENDS Tokens, Json
Init == TkInit
Next == TkNext
Emit == PrintT(<<"VEC", ToJson([eco |-> teco, text |-> ttext])>>)
=============================================================================
