---------------------------- MODULE MC_Totality ----------------------------
EXTENDS Totality, Json, SequencesExt
Emit == PrintT(<<"VEC", ToJson([bytes |-> buf])>>)
EmitLongs == (buf = <<>>) =>
   PrintT(<<"LONGS", ToJson([longs |-> SetToSeq({[unit |-> u, prefix |-> w[1], suffix |-> w[2], n |-> n] : u \in Units, w \in Wraps, n \in Lengths})])>>)
=============================================================================
