-------------------------------- MODULE Dpkg --------------------------------
(***************************************************************************)
(* Reference order of Debian versions: dpkg's lib/dpkg/version.c           *)
(* (dpkg_version_compare + verrevcmp), transcribed on code sequences.      *)
(* Audited against /usr/bin/dpkg --compare-versions (vcheck audit).        *)
(***************************************************************************)
EXTENDS Chars

\* order(c) of verrevcmp; 0 stands for "end of string"
DOrder(c) == IF c = 0 \/ IsDigit(c) THEN 0
             ELSE IF IsAlpha(c) THEN c
             ELSE IF c = 126 THEN -1
             ELSE c + 256
At(s, i) == IF i <= Len(s) THEN s[i] ELSE 0
NonDig(s, i) == i <= Len(s) /\ ~IsDigit(s[i])

RECURSIVE Verrev(_, _, _, _)
Verrev(a, i, b, j) ==
  IF i > Len(a) /\ j > Len(b) THEN 0
  ELSE IF NonDig(a, i) \/ NonDig(b, j) THEN
         \* non-digit phase: one character at a time
         LET ac == DOrder(At(a, i))  bc == DOrder(At(b, j)) IN
         IF ac # bc THEN Sign(ac - bc) ELSE Verrev(a, i + 1, b, j + 1)
  ELSE   \* digit phase: skip zeros, longer run wins, else first difference
         LET i2 == FirstNotAt(a, i, LAMBDA c : c = 48)
             j2 == FirstNotAt(b, j, LAMBDA c : c = 48)
             i3 == FirstNotAt(a, i2, IsDigit)
             j3 == FirstNotAt(b, j2, IsDigit)
             ra == SubSeq(a, i2, i3 - 1)
             rb == SubSeq(b, j2, j3 - 1) IN
         IF Len(ra) # Len(rb) THEN Sign(Len(ra) - Len(rb))
         ELSE LET c == LexCmp(ra, rb) IN
              IF c # 0 THEN c
              ELSE IF i3 = i /\ j3 = j THEN 0   \* cannot happen (progress); guards recursion
              ELSE Verrev(a, i3, b, j3)
VerrevCmp(a, b) == Verrev(a, 1, b, 1)

\* [epoch:]upstream[-revision]; epoch = text before the first ':', revision = text after the last '-'
DSplit(s) ==
  LET c    == IndexOf(s, 58)
      rest == IF c = 0 THEN s ELSE SubSeq(s, c + 1, Len(s))
      h    == LastIndexOf(rest, 45) IN
  [ epoch    |-> IF c = 0 THEN <<>> ELSE SubSeq(s, 1, c - 1),
    hasEpoch |-> c # 0,
    upstream |-> IF h = 0 THEN rest ELSE SubSeq(rest, 1, h - 1),
    hasRev   |-> h # 0,
    revision |-> IF h = 0 THEN <<>> ELSE SubSeq(rest, h + 1, Len(rest)) ]

DKey(s) == DSplit(s)
DCmpKey(x, y) ==
  LET e == NumCmp(x.epoch, y.epoch) IN
  IF e # 0 THEN e
  ELSE LET u == VerrevCmp(x.upstream, y.upstream) IN
       IF u # 0 THEN u ELSE VerrevCmp(x.revision, y.revision)
DpkgCmp(a, b) == DCmpKey(DKey(a), DKey(b))

\* what dpkg itself accepts (parseversion): the quantifier of C10
DUpChar(c)  == IsAlnum(c) \/ c \in {46, 43, 126, 45}      \* . + ~ -
DRevChar(c) == IsAlnum(c) \/ c \in {46, 43, 126}
DInScope(s) ==
  LET k == DSplit(s) IN
  /\ (k.hasEpoch => (k.epoch # <<>> /\ AllDigits(k.epoch) /\ Len(StripZ(k.epoch)) <= 9))
  /\ k.upstream # <<>> /\ IsDigit(k.upstream[1])
  /\ \A i \in 1..Len(k.upstream) : DUpChar(k.upstream[i])
  /\ (k.hasRev => k.revision # <<>>)
  /\ \A i \in 1..Len(k.revision) : DRevChar(k.revision[i])

\* facts stated by the property, derived (not assumed) from the algorithm
ASSUME VerrevCmp(<<>>, S2C("0")) = 0                       \* absent revision = revision 0
ASSUME DpkgCmp(S2C("1.0~rc1"), S2C("1.0")) = -1            \* ~ before end of string
ASSUME DpkgCmp(S2C("1.0a"), S2C("1.0+")) = -1              \* letters before other punctuation
ASSUME DpkgCmp(S2C("1a"), S2C("1a0")) = 0                  \* empty digit run = 0
ASSUME DpkgCmp(S2C("1.0~~"), S2C("1.0~")) = -1
ASSUME DpkgCmp(S2C("1:0"), S2C("2")) = 1
ASSUME DpkgCmp(S2C("1.00000000000000000000002"), S2C("1.10")) = -1
=============================================================================
