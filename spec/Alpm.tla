-------------------------------- MODULE Alpm --------------------------------
(***************************************************************************)
(* Documented order of Arch Linux (ALPM) versions: alpm_pkg_vercmp of      *)
(* lib/libalpm/version.c (parseEVR + rpmvercmp variant), transcribed on    *)
(* code sequences.  No property pins alpm to vercmp; the model makes C01's *)
(* "some rank exists" concrete for alpm and identifies the recorded        *)
(* finding KF-alpm-01 (vercmp itself is not transitive on irregular        *)
(* separator runs).                                                        *)
(***************************************************************************)
EXTENDS Chars

AAt(s, i) == IF i <= Len(s) THEN s[i] ELSE 0
ASep(c) == ~IsAlnum(c)

RECURSIVE Avc(_, _, _, _)
Avc(a, i0, b, j0) ==
  IF i0 > Len(a) \/ j0 > Len(b) THEN      \* while (*one && *two)
       \* final showdown
       IF i0 > Len(a) /\ j0 > Len(b) THEN 0
       ELSE IF (i0 > Len(a) /\ ~IsAlpha(AAt(b, j0))) \/ IsAlpha(AAt(a, i0)) THEN -1 ELSE 1
  ELSE
  LET i == FirstNotAt(a, i0, ASep)
      j == FirstNotAt(b, j0, ASep) IN
  IF i > Len(a) \/ j > Len(b) THEN
       IF i > Len(a) /\ j > Len(b) THEN 0
       ELSE IF (i > Len(a) /\ ~IsAlpha(AAt(b, j))) \/ IsAlpha(AAt(a, i)) THEN -1 ELSE 1
  ELSE IF (i - i0) # (j - j0) THEN (IF (i - i0) < (j - j0) THEN -1 ELSE 1)
  ELSE
  LET isnum == IsDigit(a[i])
      InSeg(c) == IF isnum THEN IsDigit(c) ELSE IsAlpha(c)
      ea == FirstNotAt(a, i, InSeg)
      eb == FirstNotAt(b, j, InSeg)
      sa == SubSeq(a, i, ea - 1)
      sb == SubSeq(b, j, eb - 1) IN
  IF sb = <<>> THEN (IF isnum THEN 1 ELSE -1)
  ELSE LET c == IF isnum THEN NumCmp(sa, sb) ELSE LexCmp(sa, sb) IN
       IF c # 0 THEN c ELSE Avc(a, ea, b, eb)
AlpmVercmp(a, b) == IF a = b THEN 0 ELSE Avc(a, 1, b, 1)

\* go-univers' reading of [epoch:]pkgver[-pkgrel]: epoch before the first ':', pkgrel = the digits
\* after the last '-' that is followed only by digits
ASplit(s) ==
  LET c    == IndexOf(s, 58)
      rest == IF c = 0 THEN s ELSE SubSeq(s, c + 1, Len(s))
      H    == {h \in 1..Len(rest) - 1 : rest[h] = 45 /\ AllDigits(SubSeq(rest, h + 1, Len(rest)))}
      h    == IF H = {} THEN 0 ELSE MaxOf(H) IN
  [ epoch  |-> IF c = 0 THEN <<>> ELSE SubSeq(s, 1, c - 1),
    pkgver |-> IF h = 0 THEN rest ELSE SubSeq(rest, 1, h - 1),
    hasRel |-> h # 0,
    pkgrel |-> IF h = 0 THEN <<>> ELSE SubSeq(rest, h + 1, Len(rest)) ]

AlpmCmp(a, b) ==
  LET x == ASplit(a)  y == ASplit(b)
      e == NumCmp(x.epoch, y.epoch) IN
  IF e # 0 THEN e
  ELSE LET v == AlpmVercmp(x.pkgver, y.pkgver) IN
       IF v # 0 THEN v
       ELSE IF x.hasRel /\ y.hasRel THEN NumCmp(x.pkgrel, y.pkgrel) ELSE 0

\* irregular pkgver: a separator run that is leading, trailing, or longer than one character
AlpmIrregular(s) ==
  LET v == ASplit(s).pkgver IN
  \/ v = <<>> \/ ASep(v[1]) \/ ASep(v[Len(v)])
  \/ \E i \in 1..Len(v) - 1 : ASep(v[i]) /\ ASep(v[i + 1])

AT(a, b, r) == AlpmCmp(S2C(a), S2C(b)) = r
ASSUME /\ AT("1.0a", "1.0b", -1) /\ AT("1.0rc", "1.0", -1) /\ AT("1.0", "1.0.a", -1) /\ AT("1.0.a", "1.0.1", -1)
       /\ AT("1", "1.0", -1) /\ AT("1...2", "1.2", 1) /\ AT("1.001", "1.1", 0) /\ AT("1_2", "1.2", 0)
       /\ AT("1.", "1.0", -1) /\ AT("1.0.", "1.0", 1) /\ AT("1.0", "1.0-1", 0) /\ AT("1.0-1", "1.0-2", -1)
       /\ AT("1:1.0-1", "0:1.0-100", 1) /\ AT("1.0-1", "1.0alpha-1", 1)
=============================================================================
