------------------------------ MODULE DocOrder ------------------------------
(***************************************************************************)
(* Documented orders of ecosystems that no listed property pins to a       *)
(* reference (DESIGN 6, "implementation-model drift reports").  They make  *)
(* C01's "some rank exists" concrete: the trace specification reports, as  *)
(* INFO and never as a verdict, how many observed pairs differ from the    *)
(* documented order.                                                       *)
(*                                                                         *)
(* cran: R's numeric_version / package_version (R-exts 1.1.1, ?numeric_    *)
(* version): at least two non-negative integers separated by '.' or '-';   *)
(* versions compare as integer sequences, component by component, and a    *)
(* proper prefix is lower (compareVersion("1.0", "1.0.0") = -1).           *)
(***************************************************************************)
EXTENDS Chars

CranNorm(cs) == LET t == Trim(cs) IN [i \in 1..Len(t) |-> IF t[i] = 45 THEN 46 ELSE t[i]]
CranComps(cs) == SplitAt(CranNorm(cs), 46)
CranScope(cs) == LET q == CranComps(cs) IN
                   Len(q) >= 2 /\ \A i \in 1..Len(q) : q[i] # <<>> /\ AllDigits(q[i])
CranCmp(a, b) == SeqCmp(CranComps(a), CranComps(b), NumCmp)

DocEcos == {"cran"}
DocScope(eco, cs) == CASE eco = "cran" -> CranScope(cs) [] OTHER -> FALSE
DocCmp(eco, a, b) == CASE eco = "cran" -> CranCmp(a, b) [] OTHER -> 2
=============================================================================
