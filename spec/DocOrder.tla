------------------------------ MODULE DocOrder ------------------------------
(***************************************************************************)
(* Documented orders of ecosystems that no listed property pins to a       *)
(* reference (DESIGN 6, "implementation-model drift reports").  They make  *)
(* C01's "some rank exists" concrete: the trace specification reports, as  *)
(* INFO and never as a verdict, how many observed pairs differ from the    *)
(* documented order.                                                       *)
(*                                                                         *)
(* cran: R's numeric_version / package_version (R-exts 1.1.1, ?numeric_    *)
(* version): at least two non-negative integers separated by '.' or '-';   *)
(* versions compare as integer sequences, component by component, and a    *)
(* proper prefix is lower (compareVersion("1.0", "1.0.0") = -1).           *)
(***************************************************************************)
EXTENDS Chars

CranNorm(cs) == LET t == Trim(cs) IN [i \in 1..Len(t) |-> IF t[i] = 45 THEN 46 ELSE t[i]]
CranComps(cs) == SplitAt(CranNorm(cs), 46)
CranScope(cs) == LET q == CranComps(cs) IN
                   Len(q) >= 2 /\ \A i \in 1..Len(q) : q[i] # <<>> /\ AllDigits(q[i])
CranCmp(a, b) == SeqCmp(CranComps(a), CranComps(b), NumCmp)

\* mattermost (the package's own documentation): [v]MAJOR.MINOR.PATCH[-rcN | -esrN]; numbers without leading zeros;
\* the core compares numerically; for one core, rcN < esrN < the plain release; N (absent = 0) orders within a kind.
MmParse(cs) ==
  LET t    == Trim(cs)
      u    == IF t # <<>> /\ t[1] = 118 THEN SubSeq(t, 2, Len(t)) ELSE t
      h    == IndexOf(u, 45)
      core == SplitAt(IF h = 0 THEN u ELSE SubSeq(u, 1, h - 1), 46)
      q    == IF h = 0 THEN <<>> ELSE SubSeq(u, h + 1, Len(u))
      kind == IF h = 0 THEN 3
              ELSE IF Len(q) >= 2 /\ SubSeq(q, 1, 2) = <<114, 99>> THEN 1
              ELSE IF Len(q) >= 3 /\ SubSeq(q, 1, 3) = <<101, 115, 114>> THEN 2 ELSE 0
      num  == IF kind = 1 THEN SubSeq(q, 3, Len(q)) ELSE IF kind = 2 THEN SubSeq(q, 4, Len(q)) ELSE <<>>
  IN [core |-> core, kind |-> kind, num |-> num]
MmNumOk(d) == d # <<>> /\ AllDigits(d) /\ (Len(d) = 1 \/ d[1] # 48)
MmScope(cs) == LET x == MmParse(cs) IN
                 Len(x.core) = 3 /\ (\A i \in 1..3 : MmNumOk(x.core[i])) /\ x.kind # 0 /\ AllDigits(x.num)
MmCmp(a, b) ==
  LET x == MmParse(a)  y == MmParse(b)
      c == SeqCmp(x.core, y.core, NumCmp) IN
  IF c # 0 THEN c ELSE IF x.kind # y.kind THEN Sign(x.kind - y.kind) ELSE NumCmp(x.num, y.num)

\* apache (the package's own table): MAJOR.MINOR.PATCH[-<letters><digits>]; the core compares numerically; for one core
\* alpha < beta < m = milestone < rc < snapshot < dev < any other word < the plain release (letter case ignored); the
\* number (absent = 0) orders within a rank - all "other words" share one rank.
ApWord(w) == LET x == LowerSeq(w) IN
  CASE x = <<97, 108, 112, 104, 97>> -> 1                                   \* alpha
    [] x = <<98, 101, 116, 97>> -> 2                                        \* beta
    [] x = <<109>> \/ x = <<109, 105, 108, 101, 115, 116, 111, 110, 101>> -> 3   \* m, milestone
    [] x = <<114, 99>> -> 4                                                 \* rc
    [] x = <<115, 110, 97, 112, 115, 104, 111, 116>> -> 5                   \* snapshot
    [] x = <<100, 101, 118>> -> 6                                           \* dev
    [] OTHER -> 99
ApParse(cs) ==
  LET t    == Trim(cs)
      h    == IndexOf(t, 45)
      core == SplitAt(IF h = 0 THEN t ELSE SubSeq(t, 1, h - 1), 46)
      q    == IF h = 0 THEN <<>> ELSE SubSeq(t, h + 1, Len(t))
      e    == FirstNotAt(q, 1, IsAlpha)
  IN [core |-> core, hasq |-> h # 0, word |-> SubSeq(q, 1, e - 1), num |-> SubSeq(q, e, Len(q))]
ApScope(cs) == LET x == ApParse(cs) IN
                 /\ Len(x.core) = 3 /\ \A i \in 1..3 : x.core[i] # <<>> /\ AllDigits(x.core[i])
                 /\ (x.hasq => x.word # <<>> /\ AllDigits(x.num))
ApRank(x) == IF x.hasq THEN ApWord(x.word) ELSE 100
ApCmp(a, b) ==
  LET x == ApParse(a)  y == ApParse(b)
      c == SeqCmp(x.core, y.core, NumCmp) IN
  IF c # 0 THEN c ELSE IF ApRank(x) # ApRank(y) THEN Sign(ApRank(x) - ApRank(y)) ELSE NumCmp(x.num, y.num)

\* gentoo: the Package Manager Specification, section 3.3 (Algorithms 3.1-3.7), on the single-suffix versions go-univers
\* accepts: the first number compares as an integer; a later number compares as an integer unless one of the two starts
\* with 0, in which case both are compared as text after dropping their trailing zeros; with all common numbers equal the
\* version with more numbers is later; then the letter (none lowest), the suffix (_alpha < _beta < _pre < _rc < none < _p,
\* then its number, absent = 0) and the revision (absent = 0).  go-univers is known to differ (it pads missing numbers
\* with zero and reads every number as an integer): this model exists to measure that drift.
GtParse(cs) ==
  LET t    == Trim(cs)
      h    == LastIndexOf(t, 45)
      body == IF h = 0 THEN t ELSE SubSeq(t, 1, h - 1)
      revp == IF h = 0 THEN <<>> ELSE SubSeq(t, h + 1, Len(t))
      u    == IndexOf(body, 95)
      main == IF u = 0 THEN body ELSE SubSeq(body, 1, u - 1)
      suf  == IF u = 0 THEN <<>> ELSE SubSeq(body, u + 1, Len(body))
      e    == FirstNotAt(suf, 1, IsAlpha)
      hasL == main # <<>> /\ IsAlpha(main[Len(main)])
  IN [nums |-> SplitAt(IF hasL THEN SubSeq(main, 1, Len(main) - 1) ELSE main, 46),
      letter |-> IF hasL THEN main[Len(main)] ELSE 0,
      hasSuf |-> u # 0, word |-> SubSeq(suf, 1, e - 1), snum |-> SubSeq(suf, e, Len(suf)),
      hasRev |-> h # 0, revp |-> revp]
GtRank(x) == IF ~x.hasSuf THEN 5
             ELSE CASE x.word = <<97, 108, 112, 104, 97>> -> 1 [] x.word = <<98, 101, 116, 97>> -> 2 [] x.word = <<112, 114, 101>> -> 3
                    [] x.word = <<114, 99>> -> 4 [] x.word = <<112>> -> 6 [] OTHER -> 0
GtScope(cs) == LET x == GtParse(cs) IN
  /\ Len(x.nums) \in 1..11 /\ \A i \in 1..Len(x.nums) : x.nums[i] # <<>> /\ AllDigits(x.nums[i])
  /\ GtRank(x) # 0 /\ AllDigits(x.snum)
  /\ (x.hasRev => Len(x.revp) >= 2 /\ x.revp[1] = 114 /\ AllDigits(SubSeq(x.revp, 2, Len(x.revp))))
GtStripTZ(d) == LET S == {i \in 1..Len(d) : d[i] # 48} IN IF S = {} THEN <<>> ELSE SubSeq(d, 1, MaxOf(S))
GtNumCmp(a, b) == IF a[1] = 48 \/ b[1] = 48 THEN LexCmp(GtStripTZ(a), GtStripTZ(b)) ELSE NumCmp(a, b)
GtCmp(a, b) ==
  LET x == GtParse(a)  y == GtParse(b)
      c1 == NumCmp(x.nums[1], y.nums[1])
      c2 == SeqCmp(Tail(x.nums), Tail(y.nums), GtNumCmp)
      rv(z) == IF z.hasRev THEN SubSeq(z.revp, 2, Len(z.revp)) ELSE <<>> IN
  IF c1 # 0 THEN c1 ELSE IF c2 # 0 THEN c2
  ELSE IF x.letter # y.letter THEN Sign(x.letter - y.letter)
  ELSE IF GtRank(x) # GtRank(y) THEN Sign(GtRank(x) - GtRank(y))
  ELSE IF NumCmp(x.snum, y.snum) # 0 THEN NumCmp(x.snum, y.snum)
  ELSE NumCmp(rv(x), rv(y))

DocEcos == {"cran", "mattermost", "apache", "gentoo"}
DocScope(eco, cs) == CASE eco = "cran" -> CranScope(cs) [] eco = "mattermost" -> MmScope(cs) [] eco = "apache" -> ApScope(cs) [] eco = "gentoo" -> GtScope(cs) [] OTHER -> FALSE
DocCmp(eco, a, b) == CASE eco = "cran" -> CranCmp(a, b) [] eco = "mattermost" -> MmCmp(a, b) [] eco = "apache" -> ApCmp(a, b) [] eco = "gentoo" -> GtCmp(a, b) [] OTHER -> 2
=============================================================================
