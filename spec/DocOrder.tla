------------------------------ MODULE DocOrder ------------------------------
(***************************************************************************)
(* Documented orders of ecosystems that no listed property pins to a       *)
(* reference (DESIGN 6, "implementation-model drift reports").  They make  *)
(* C01's "some rank exists" concrete: the trace specification reports, as  *)
(* INFO and never as a verdict, how many observed pairs differ from the    *)
(* documented order.                                                       *)
(*                                                                         *)
(* cran: R's numeric_version / package_version (R-exts 1.1.1, ?numeric_    *)
(* version): at least two non-negative integers separated by '.' or '-';   *)
(* versions compare as integer sequences, component by component, and a    *)
(* proper prefix is lower (compareVersion("1.0", "1.0.0") = -1).           *)
(***************************************************************************)
EXTENDS Chars

CranNorm(cs) == LET t == Trim(cs) IN [i \in 1..Len(t) |-> IF t[i] = 45 THEN 46 ELSE t[i]]
CranComps(cs) == SplitAt(CranNorm(cs), 46)
CranScope(cs) == LET q == CranComps(cs) IN
                   Len(q) >= 2 /\ \A i \in 1..Len(q) : q[i] # <<>> /\ AllDigits(q[i])
CranCmp(a, b) == SeqCmp(CranComps(a), CranComps(b), NumCmp)

\* mattermost (the package's own documentation): [v]MAJOR.MINOR.PATCH[-rcN | -esrN]; numbers without leading zeros;
\* the core compares numerically; for one core, rcN < esrN < the plain release; N (absent = 0) orders within a kind.
MmParse(cs) ==
  LET t    == Trim(cs)
      u    == IF t # <<>> /\ t[1] = 118 THEN SubSeq(t, 2, Len(t)) ELSE t
      h    == IndexOf(u, 45)
      core == SplitAt(IF h = 0 THEN u ELSE SubSeq(u, 1, h - 1), 46)
      q    == IF h = 0 THEN <<>> ELSE SubSeq(u, h + 1, Len(u))
      kind == IF h = 0 THEN 3
              ELSE IF Len(q) >= 2 /\ SubSeq(q, 1, 2) = <<114, 99>> THEN 1
              ELSE IF Len(q) >= 3 /\ SubSeq(q, 1, 3) = <<101, 115, 114>> THEN 2 ELSE 0
      num  == IF kind = 1 THEN SubSeq(q, 3, Len(q)) ELSE IF kind = 2 THEN SubSeq(q, 4, Len(q)) ELSE <<>>
  IN [core |-> core, kind |-> kind, num |-> num]
MmNumOk(d) == d # <<>> /\ AllDigits(d) /\ (Len(d) = 1 \/ d[1] # 48)
MmScope(cs) == LET x == MmParse(cs) IN
                 Len(x.core) = 3 /\ (\A i \in 1..3 : MmNumOk(x.core[i])) /\ x.kind # 0 /\ AllDigits(x.num)
MmCmp(a, b) ==
  LET x == MmParse(a)  y == MmParse(b)
      c == SeqCmp(x.core, y.core, NumCmp) IN
  IF c # 0 THEN c ELSE IF x.kind # y.kind THEN Sign(x.kind - y.kind) ELSE NumCmp(x.num, y.num)

\* apache (the package's own table): MAJOR.MINOR.PATCH[-<letters><digits>]; the core compares numerically; for one core
\* alpha < beta < m = milestone < rc < snapshot < dev < any other word < the plain release (letter case ignored); the
\* number (absent = 0) orders within a rank - all "other words" share one rank.
ApWord(w) == LET x == LowerSeq(w) IN
  CASE x = <<97, 108, 112, 104, 97>> -> 1                                   \* alpha
    [] x = <<98, 101, 116, 97>> -> 2                                        \* beta
    [] x = <<109>> \/ x = <<109, 105, 108, 101, 115, 116, 111, 110, 101>> -> 3   \* m, milestone
    [] x = <<114, 99>> -> 4                                                 \* rc
    [] x = <<115, 110, 97, 112, 115, 104, 111, 116>> -> 5                   \* snapshot
    [] x = <<100, 101, 118>> -> 6                                           \* dev
    [] OTHER -> 99
ApParse(cs) ==
  LET t    == Trim(cs)
      h    == IndexOf(t, 45)
      core == SplitAt(IF h = 0 THEN t ELSE SubSeq(t, 1, h - 1), 46)
      q    == IF h = 0 THEN <<>> ELSE SubSeq(t, h + 1, Len(t))
      e    == FirstNotAt(q, 1, IsAlpha)
  IN [core |-> core, hasq |-> h # 0, word |-> SubSeq(q, 1, e - 1), num |-> SubSeq(q, e, Len(q))]
ApScope(cs) == LET x == ApParse(cs) IN
                 /\ Len(x.core) = 3 /\ \A i \in 1..3 : x.core[i] # <<>> /\ AllDigits(x.core[i])
                 /\ (x.hasq => x.word # <<>> /\ AllDigits(x.num))
ApRank(x) == IF x.hasq THEN ApWord(x.word) ELSE 100
ApCmp(a, b) ==
  LET x == ApParse(a)  y == ApParse(b)
      c == SeqCmp(x.core, y.core, NumCmp) IN
  IF c # 0 THEN c ELSE IF ApRank(x) # ApRank(y) THEN Sign(ApRank(x) - ApRank(y)) ELSE NumCmp(x.num, y.num)

DocEcos == {"cran", "mattermost", "apache"}
DocScope(eco, cs) == CASE eco = "cran" -> CranScope(cs) [] eco = "mattermost" -> MmScope(cs) [] eco = "apache" -> ApScope(cs) [] OTHER -> FALSE
DocCmp(eco, a, b) == CASE eco = "cran" -> CranCmp(a, b) [] eco = "mattermost" -> MmCmp(a, b) [] eco = "apache" -> ApCmp(a, b) [] OTHER -> 2
=============================================================================
