-------------------------------- MODULE Cli --------------------------------
(* The CLI decision machine as a TLC-explorable state machine; semantics in CliSem.tla. *)
EXTENDS CliSem

\* the machine: pick a shape, walk the stages
VARIABLES cname, ccmd, cnargs, cparses, cstage
clivars == <<cname, ccmd, cnargs, cparses, cstage>>
CliInit == /\ cname \in NameKinds /\ ccmd \in CmdKinds /\ cnargs \in 0..5 /\ cparses \in BOOLEAN
           /\ (ccmd = "absent" => cnargs = 0) /\ (cname = "absent" => ccmd = "absent")
           /\ cstage = "start"
CliStep == cstage = "start" /\ cstage' = Stage(cname, ccmd, cnargs, cparses) /\ UNCHANGED <<cname, ccmd, cnargs, cparses>>
CliSpec == CliInit /\ [][CliStep]_clivars
\* success writes a result and exits 0 only when every stage passed; every failure exits 1
SuccessIffAllStages == cstage = "result" <=>
   (cstage # "start" /\ cname \in {"eco", "vers"} /\ ccmd \in {"compare", "sort", "contains"} /\ (cname = "vers" => ccmd = "contains")
    /\ (ccmd \in {"compare", "contains"} => cnargs = 2) /\ (ccmd = "sort" => cnargs >= 1) /\ cparses)
ExitIsZeroOrOne == cstage # "start" => ExitOf(cstage) \in {0, 1}

=============================================================================
