----------------------------- MODULE VersSeeds -----------------------------
(* Seed ranges (valid, accepted) per scheme for the corruption generator of C17, *)
(* near-miss scheme names, and the routing ranges: versions that are valid in    *)
(* one ecosystem but invalid or ordered differently in another.                   *)
EXTENDS Integers, Sequences, TLC

SeedTable ==
  [ alpine  |-> << <<">=1.0_rc1|<1.1", "1.0">>, <<"=0.9|!=1.0-r1|>2.0", "2.1">>, <<"<1.0|>=1.10|<=2.0-r1", "1.10">> >>,
    cargo   |-> << <<">=1.0.0|<2.0.0", "1.5.0">>, <<"=0.1.0|!=1.0.1|>2.0.0", "2.0.1">>, <<"<1.0.0-beta|>=1.1.0|<=2.0.0", "1.10.0">> >>,
    deb     |-> << <<">=1.0~rc1|<1:0.1", "1.0-1">>, <<"=0.9|!=1.0-2|>2.0", "2.1">>, <<"<1.0|>=1.10|<=2.0+dfsg-1", "2.0">> >>,
    gem     |-> << <<">=1.0.0.beta|<2.0.0", "1.1.0">>, <<"=0.9|!=1.0.1|>2.0.0", "2.0.1">>, <<"<1.0.0|>=1.10.0|<=2.1.0", "2.0.0">> >>,
    generic |-> << <<">=1.0.0|<2.0.0", "1.5.0">>, <<"=0.1.0|!=1.0.1|>2.0.0", "2.0.1">>, <<"<1.0.0-beta|>=1.1.0|<=2.0.0", "1.10.0">> >>,
    golang  |-> << <<">=v1.0.0|<v2.0.0", "v1.5.0">>, <<"=v0.1.0|!=v1.0.1|>v2.0.0", "v2.0.1">>, <<"<v1.0.0-beta|>=v1.1.0|<=v2.0.0", "v1.10.0">> >>,
    maven   |-> << <<">=1.0-rc1|<2.0", "1.1">>, <<"=0.9|!=1.0.1|>2.0", "2.0.1">>, <<"<1.0-beta-1|>=1.10|<=2.1", "2.0">> >>,
    npm     |-> << <<">=1.0.0|<2.0.0", "1.5.0">>, <<"=0.1.0|!=1.0.1|>2.0.0", "2.0.1">>, <<"<1.0.0-beta|>=1.1.0|<=2.0.0", "1.10.0">> >>,
    nuget   |-> << <<">=1.0.0|<2.0.0", "1.5.0">>, <<"=0.1.0|!=1.0.1|>2.0.0", "2.0.1">>, <<"<1.0.0-beta|>=1.1.0|<=2.0.0", "1.10.0">> >>,
    pypi    |-> << <<">=1.0|<2.0", "1.1">>, <<"=0.2|!=1.0.1|>2.0", "2.0.1">>, <<"<1.0|>=1.10|<=2.0.post1", "2.0">> >>,
    rpm     |-> << <<">=1.0~rc1|<1:0.1", "1.0-1.el8">>, <<"=0.9|!=1.0.1|>2.0", "2.1">>, <<"<1.0|>=1.10|<=2.0-2", "2.0">> >> ]
SeedSchemes == DOMAIN SeedTable
SeedSet(n) == {<<s, "vers:" \o s \o "/" \o SeedTable[s][i][1], SeedTable[s][i][2]>> : s \in SeedSchemes, i \in 1..n}

\* one-constraint ranges (an implementation may treat them on a path of their own)
SingleSeedSet == {<<s, "vers:" \o s \o "/" \o o \o SeedTable[s][1][2], SeedTable[s][2][2]>> : s \in SeedSchemes, o \in {">=", "<"}}

\* ranges made of exclusions only, probed with the FIRST excluded version: an answer can be reached before the later
\* constraints have been looked at, and still every constraint version has to be validated
ExclSeedSet == {<<s, "vers:" \o s \o "/!=" \o SeedTable[s][1][2] \o "|!=" \o SeedTable[s][2][2] \o "|!=" \o SeedTable[s][3][2], SeedTable[s][1][2]>> : s \in SeedSchemes}

\* golang versions with build metadata: what follows the "+" is part of the version and has to be validated too
GoBuildSeedSet == {<<"golang", "vers:golang/>=v2.0.0+incompatible|<v3.0.0+meta.1", "v2.1.0+incompatible">>,
                   <<"golang", "vers:golang/!=v2.0.0+incompatible", "v2.0.1">>}

NearMiss == {"debian", "go", "semver", "Npm", "npm2", "", "np m", "rubygems", "python", "deb.", "DEB", "n"}
NearMissSet == {<<"npm", "vers:" \o n \o "/>=1.0.0|<2.0.0", "1.5.0">> : n \in NearMiss}

\* versions whose validity or order differs between ecosystems
RV == <<"1.0", "2.0", "1.0.0", "2.0.0", "1.0~rc1", "1.0.0-alpha", "1:2.0", "1.0a", "1.0-1", "1.0_rc1", "1.0.0.rc1", "v1.0.0", "1.0+b1">>
RoutingSet(vs) ==
  {<<s, "vers:" \o s \o "/>=" \o RV[a] \o "|<" \o RV[b], RV[p]>> : s \in SeedSchemes, a \in vs, b \in vs, p \in vs}
  \cup {<<s, "vers:" \o s \o "/" \o o \o RV[a], RV[p]>> : s \in SeedSchemes, o \in {"<", ">=", "=", "!="}, a \in vs, p \in vs}
=============================================================================
