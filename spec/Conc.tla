-------------------------------- MODULE Conc --------------------------------
(***************************************************************************)
(* C19: operations are pure and safe for concurrent use.  Goroutines call  *)
(* operations on shared values; a call is a Begin and an End step with the *)
(* result computed somewhere in between.  The library is supposed to have  *)
(* NO hidden mutable state: no step of any call changes the shared heap,   *)
(* and a result depends only on the operation and its arguments - so every *)
(* End of the same operation returns the same result, whatever the         *)
(* interleaving and whatever was called before (history independence).     *)
(* Lazy = TRUE is the negative control: an observer that lazily fills a    *)
(* cache field of a shared value in two steps; TLC finds the interleaving  *)
(* in which another goroutine observes the half-written field.             *)
(***************************************************************************)
EXTENDS Integers, Sequences, FiniteSets, TLC

CONSTANTS Procs, MaxCalls, Lazy

Ops == {"compare", "contains", "string"}
VARIABLES pc,       \* pc[p] in {"idle", "mid", "mid2"}
          cur,      \* the operation goroutine p is executing
          calls,    \* number of calls p has begun
          heap,     \* the shared values; here one field that a pure library never writes
          memo,     \* first result seen per operation
          bad       \* a later End returned something else (history / schedule dependence)
cvars == <<pc, cur, calls, heap, memo, bad>>

NoRes == "none"
CInit == /\ pc = [p \in Procs |-> "idle"] /\ cur = [p \in Procs |-> "compare"] /\ calls = [p \in Procs |-> 0]
         /\ heap = "clean" /\ memo = [o \in Ops |-> NoRes] /\ bad = FALSE

\* what an operation returns: a function of the operation (its arguments are fixed here) and, if the
\* library were impure, of what it reads from the heap
ResultOf(o, h) == IF Lazy /\ o = "compare" /\ h = "dirty" THEN "wrong" ELSE o

Begin(p) == /\ pc[p] = "idle" /\ calls[p] < MaxCalls
            /\ \E o \in Ops : cur' = [cur EXCEPT ![p] = o]
            /\ pc' = [pc EXCEPT ![p] = "mid"] /\ calls' = [calls EXCEPT ![p] = @ + 1]
            /\ UNCHANGED <<heap, memo, bad>>
\* the lazy variant writes the shared value in two steps inside "contains"
Mid(p) == /\ pc[p] = "mid"
          /\ IF Lazy /\ cur[p] = "contains" /\ heap = "clean"
             THEN heap' = "dirty" /\ pc' = [pc EXCEPT ![p] = "mid2"]
             ELSE heap' = heap /\ pc' = [pc EXCEPT ![p] = "end"]
          /\ UNCHANGED <<cur, calls, memo, bad>>
Mid2(p) == /\ pc[p] = "mid2" /\ heap' = "filled" /\ pc' = [pc EXCEPT ![p] = "end"] /\ UNCHANGED <<cur, calls, memo, bad>>
End(p) == /\ pc[p] = "end"
          /\ LET r == ResultOf(cur[p], heap) IN
             /\ memo' = IF memo[cur[p]] = NoRes THEN [memo EXCEPT ![cur[p]] = r] ELSE memo
             /\ bad' = (bad \/ (memo[cur[p]] # NoRes /\ memo[cur[p]] # r))
          /\ pc' = [pc EXCEPT ![p] = "idle"] /\ UNCHANGED <<cur, calls, heap>>
CNext == \E p \in Procs : Begin(p) \/ Mid(p) \/ Mid2(p) \/ End(p)
CSpec == CInit /\ [][CNext]_cvars

HeapNeverChanges == [][heap' = heap]_cvars           \* no call modifies a value another call can observe
ResultsIndependent == ~bad                             \* same operation, same result: any schedule, any history
=============================================================================
