// Command vh is the conformance harness: it reads job lines (NDJSON) produced by
// TLC-generated vectors or by the seeded generators, drives the real go-univers
// API, and writes observation events (NDJSON) that the TLA+ trace specification
// judges. It never decides a property itself.
package main

import (
	"bufio"
	"encoding/json"
	"fmt"
	"os"
)

type Job map[string]json.RawMessage

func (j Job) str(k string) string {
	var s string
	if raw, ok := j[k]; ok {
		_ = json.Unmarshal(raw, &s)
	}
	return s
}
func (j Job) strs(k string) []string {
	var s []string
	if raw, ok := j[k]; ok {
		_ = json.Unmarshal(raw, &s)
	}
	return s
}
func (j Job) ints(k string) []int {
	var s []int
	if raw, ok := j[k]; ok {
		_ = json.Unmarshal(raw, &s)
	}
	return s
}
func (j Job) num(k string) int {
	var s int
	if raw, ok := j[k]; ok {
		_ = json.Unmarshal(raw, &s)
	}
	return s
}

type handler func(j Job, emit func(any))

var handlers = map[string]handler{}

func main() {
	if len(os.Args) < 4 || os.Args[1] != "run" {
		fmt.Fprintln(os.Stderr, "usage: vh run <jobs.ndjson> <events.ndjson>")
		os.Exit(2)
	}
	in, err := os.Open(os.Args[2])
	if err != nil {
		fmt.Fprintln(os.Stderr, err)
		os.Exit(2)
	}
	defer in.Close()
	out, err := os.Create(os.Args[3])
	if err != nil {
		fmt.Fprintln(os.Stderr, err)
		os.Exit(2)
	}
	w := bufio.NewWriterSize(out, 1<<20)
	enc := json.NewEncoder(w)
	enc.SetEscapeHTML(false)
	emit := func(ev any) {
		if err := enc.Encode(ev); err != nil {
			fmt.Fprintln(os.Stderr, "encode:", err)
			os.Exit(2)
		}
	}
	sc := bufio.NewScanner(in)
	sc.Buffer(make([]byte, 1<<20), 1<<30)
	n := 0
	for sc.Scan() {
		line := sc.Bytes()
		if len(line) == 0 {
			continue
		}
		var j Job
		if err := json.Unmarshal(line, &j); err != nil {
			fmt.Fprintf(os.Stderr, "job %d: %v\n", n, err)
			os.Exit(2)
		}
		k := j.str("k")
		h, ok := handlers[k]
		if !ok {
			fmt.Fprintf(os.Stderr, "job %d: unknown kind %q\n", n, k)
			os.Exit(2)
		}
		h(j, emit)
		n++
	}
	if err := sc.Err(); err != nil {
		fmt.Fprintln(os.Stderr, err)
		os.Exit(2)
	}
	w.Flush()
	out.Close()
	fmt.Fprintf(os.Stderr, "vh: %d jobs\n", n)
}

func jsonUnmarshal(raw json.RawMessage, v any) error {
	if raw == nil {
		return nil
	}
	return json.Unmarshal(raw, v)
}

type jsonRaw = json.RawMessage
