package main

import (
	"fmt"
	"reflect"
	"slices"

	"github.com/alowayed/go-univers/pkg/ecosystem/alpine"
	"github.com/alowayed/go-univers/pkg/ecosystem/alpm"
	"github.com/alowayed/go-univers/pkg/ecosystem/apache"
	"github.com/alowayed/go-univers/pkg/ecosystem/cargo"
	"github.com/alowayed/go-univers/pkg/ecosystem/composer"
	"github.com/alowayed/go-univers/pkg/ecosystem/conan"
	"github.com/alowayed/go-univers/pkg/ecosystem/cran"
	"github.com/alowayed/go-univers/pkg/ecosystem/debian"
	"github.com/alowayed/go-univers/pkg/ecosystem/gem"
	"github.com/alowayed/go-univers/pkg/ecosystem/gentoo"
	"github.com/alowayed/go-univers/pkg/ecosystem/github"
	"github.com/alowayed/go-univers/pkg/ecosystem/golang"
	"github.com/alowayed/go-univers/pkg/ecosystem/hex"
	"github.com/alowayed/go-univers/pkg/ecosystem/mattermost"
	"github.com/alowayed/go-univers/pkg/ecosystem/maven"
	"github.com/alowayed/go-univers/pkg/ecosystem/npm"
	"github.com/alowayed/go-univers/pkg/ecosystem/nuget"
	"github.com/alowayed/go-univers/pkg/ecosystem/pypi"
	"github.com/alowayed/go-univers/pkg/ecosystem/rpm"
	"github.com/alowayed/go-univers/pkg/ecosystem/semver"
	"github.com/alowayed/go-univers/pkg/univers"
)

// Eco is the string-in / observation-out view of one ecosystem. It observes the
// library only through its public API (univers.Ecosystem / Version / VersionRange).
type Eco struct {
	Name string
	// ParseV returns (value, value-is-nil, error, panic text)
	ParseV   func(s string) (any, bool, error, string)
	ParseR   func(s string) (any, bool, error, string)
	Cmp      func(a, b any) (int, string)
	VStr     func(a any) (string, string)
	RStr     func(r any) (string, string)
	Contains func(r, v any) (bool, string)
	// SortIdiom sorts the given values with slices.SortFunc(vs, V.Compare), the documented idiom.
	SortIdiom func(vs []any) ([]any, string)
	EcoName   func() string
}

func isNil(x any) bool {
	if x == nil {
		return true
	}
	rv := reflect.ValueOf(x)
	switch rv.Kind() {
	case reflect.Ptr, reflect.Map, reflect.Slice, reflect.Interface, reflect.Func, reflect.Chan:
		return rv.IsNil()
	}
	return false
}

func guard(pan *string) {
	if r := recover(); r != nil {
		*pan = fmt.Sprintf("panic: %v", r)
	}
}

func mk[V univers.Version[V], VR univers.VersionRange[V]](e univers.Ecosystem[V, VR]) *Eco {
	return &Eco{
		Name: e.Name(),
		ParseV: func(s string) (val any, nilv bool, err error, pan string) {
			defer guard(&pan)
			v, err := e.NewVersion(s)
			return v, isNil(v), err, ""
		},
		ParseR: func(s string) (val any, nilv bool, err error, pan string) {
			defer guard(&pan)
			r, err := e.NewVersionRange(s)
			return r, isNil(r), err, ""
		},
		Cmp: func(a, b any) (c int, pan string) {
			defer guard(&pan)
			return a.(V).Compare(b.(V)), ""
		},
		VStr: func(a any) (s string, pan string) {
			defer guard(&pan)
			return a.(V).String(), ""
		},
		RStr: func(r any) (s string, pan string) {
			defer guard(&pan)
			return r.(VR).String(), ""
		},
		Contains: func(r, v any) (ok bool, pan string) {
			defer guard(&pan)
			return r.(VR).Contains(v.(V)), ""
		},
		SortIdiom: func(vs []any) (out []any, pan string) {
			defer guard(&pan)
			ts := make([]V, len(vs))
			for i, x := range vs {
				ts[i] = x.(V)
			}
			slices.SortFunc(ts, V.Compare)
			out = make([]any, len(ts))
			for i, x := range ts {
				out[i] = x
			}
			return out, ""
		},
		EcoName: func() string { return e.Name() },
	}
}

var ecoList = []*Eco{
	mk(&alpine.Ecosystem{}),
	mk(&alpm.Ecosystem{}),
	mk(&apache.Ecosystem{}),
	mk(&cargo.Ecosystem{}),
	mk(&composer.Ecosystem{}),
	mk(&conan.Ecosystem{}),
	mk(&cran.Ecosystem{}),
	mk(&debian.Ecosystem{}),
	mk(&gem.Ecosystem{}),
	mk(&gentoo.Ecosystem{}),
	mk(&github.Ecosystem{}),
	mk(&golang.Ecosystem{}),
	mk(&hex.Ecosystem{}),
	mk(&mattermost.Ecosystem{}),
	mk(&maven.Ecosystem{}),
	mk(&npm.Ecosystem{}),
	mk(&nuget.Ecosystem{}),
	mk(&pypi.Ecosystem{}),
	mk(&rpm.Ecosystem{}),
	mk(&semver.Ecosystem{}),
}

var ecos = func() map[string]*Eco {
	m := map[string]*Eco{}
	for _, e := range ecoList {
		m[e.Name] = e
	}
	return m
}()
