package main

import "github.com/alowayed/go-univers/pkg/spec/vers"

// vers: evaluate vers.Contains(text, probe) for every probe (C04, C16, C17).

type versProbe struct {
	Pos  int    `json:"pos"`
	Text string `json:"text"`
	Ok   bool   `json:"ok"`
	Err  bool   `json:"err"`
	Msg  string `json:"msg"`
}

type versEvent struct {
	K      string      `json:"k"`
	Scheme string      `json:"scheme"`
	Tag    string      `json:"tag"`
	Text   string      `json:"text"`
	Base   string      `json:"base"`
	Cs     jsonRaw     `json:"cs"`
	PrePos []int       `json:"prepos"`
	Probes []versProbe `json:"probes"`
	Panics []string    `json:"panics"`
}

func versContains(r, v string) (ok bool, err error, pan string) {
	defer guard(&pan)
	ok, err = vers.Contains(r, v)
	return ok, err, ""
}

func init() {
	handlers["vers"] = func(j Job, emit func(any)) {
		var probes []versProbe
		_ = jsonUnmarshal(j["probes"], &probes)
		ev := versEvent{K: "vers", Scheme: j.str("scheme"), Tag: j.str("tag"), Text: j.str("text"), Base: j.str("base"),
			Cs: jsonRaw(j["cs"]), PrePos: j.ints("prepos"), Probes: probes, Panics: []string{}}
		if ev.PrePos == nil {
			ev.PrePos = []int{}
		}
		if ev.Cs == nil {
			ev.Cs = jsonRaw("[]")
		}
		for i := range ev.Probes {
			ok, err, pan := versContains(ev.Text, ev.Probes[i].Text)
			if pan != "" {
				ev.Panics = append(ev.Panics, "vers.Contains("+ev.Text+","+ev.Probes[i].Text+"): "+pan)
			}
			ev.Probes[i].Ok = ok
			ev.Probes[i].Err = err != nil
			if err != nil {
				ev.Probes[i].Msg = err.Error()
			}
		}
		emit(ev)
	}
}
