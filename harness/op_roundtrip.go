package main

// roundtrip: String()/re-parse/padding relations of versions and ranges (C18).
// Texts travel as byte-code arrays so that whitespace survives the trace unharmed.

type padObs struct {
	L   []int `json:"l"`
	R   []int `json:"r"`
	Acc bool  `json:"acc"`
	Vec []int `json:"vec"`  // versions: Compare(padded, witness_i); ranges: Contains(padded range, witness_i) as 0/1
	Cmp int   `json:"cmp0"` // versions: Compare(padded, unpadded); ranges: 0
	Pvec []int `json:"pvec"` // ranges only: Contains(range, padded witness_i) as 0/1 (-1 = padded witness rejected)
}

type rtEvent struct {
	K       string   `json:"k"`
	Eco     string   `json:"eco"`
	Kind    string   `json:"kind"` // "v" or "r"
	Text    []int    `json:"text"`
	Show    string   `json:"show"`
	Acc     bool     `json:"acc"`
	Str     []int    `json:"str"`
	Reparse bool     `json:"reparse"`
	SelfCmp int      `json:"selfcmp"` // versions: Compare(v, reparsed) ; ranges: 0
	RevCmp  int      `json:"revcmp"`
	Vec     []int    `json:"vec"`
	ReVec   []int    `json:"revec"` // the same vector for the re-parsed value
	Pads    []padObs `json:"pads"`
	Panics  []string `json:"panics"`
}

func codes(s string) []int {
	out := make([]int, len(s))
	for i := 0; i < len(s); i++ {
		out[i] = int(s[i])
	}
	return out
}
func str(c []int) string {
	b := make([]byte, len(c))
	for i, x := range c {
		b[i] = byte(x)
	}
	return string(b)
}
func b2i(b bool) int {
	if b {
		return 1
	}
	return 0
}

func init() {
	handlers["roundtrip"] = func(j Job, emit func(any)) {
		eco := ecos[j.str("eco")]
		kind := j.str("kind")
		text := j.str("text")
		wit := j.strs("witness")
		var pads []padObs
		_ = jsonUnmarshal(j["pads"], &pads)
		ev := rtEvent{K: "roundtrip", Eco: eco.Name, Kind: kind, Text: codes(text), Show: printable([]byte(text)), Str: []int{},
			Vec: []int{}, ReVec: []int{}, Pads: []padObs{}, Panics: []string{}}
		pan := func(p string) {
			if p != "" {
				ev.Panics = append(ev.Panics, p)
			}
		}
		var wvals []any
		for _, w := range wit {
			v, nilv, err, p := eco.ParseV(w)
			pan(p)
			if p != "" || err != nil || nilv {
				emit(ev) // witness must be valid; an event without vectors is judged as nothing
				return
			}
			wvals = append(wvals, v)
		}
		if kind == "v" {
			vec := func(v any) []int {
				out := make([]int, len(wvals))
				for i, w := range wvals {
					c, p := eco.Cmp(v, w)
					pan(p)
					out[i] = c
				}
				return out
			}
			v, nilv, err, p := eco.ParseV(text)
			pan(p)
			ev.Acc = p == "" && err == nil && !nilv
			if ev.Acc {
				s, p := eco.VStr(v)
				pan(p)
				ev.Str = codes(s)
				v2, nil2, err2, p2 := eco.ParseV(s)
				pan(p2)
				ev.Reparse = p2 == "" && err2 == nil && !nil2
				ev.Vec = vec(v)
				if ev.Reparse {
					ev.SelfCmp, p = eco.Cmp(v, v2)
					pan(p)
					ev.RevCmp, p = eco.Cmp(v2, v)
					pan(p)
					ev.ReVec = vec(v2)
				}
			}
			for _, pd := range pads {
				pt := str(pd.L) + text + str(pd.R)
				pv, niln, errn, pp := eco.ParseV(pt)
				pan(pp)
				pd.Acc = pp == "" && errn == nil && !niln
				pd.Vec = []int{}
				pd.Pvec = []int{}
				if pd.Acc {
					pd.Vec = vec(pv)
					if ev.Acc {
						pd.Cmp, pp = eco.Cmp(pv, v)
						pan(pp)
					}
				}
				ev.Pads = append(ev.Pads, pd)
			}
		} else {
			vec := func(r any) []int {
				out := make([]int, len(wvals))
				for i, w := range wvals {
					c, p := eco.Contains(r, w)
					pan(p)
					out[i] = b2i(c)
				}
				return out
			}
			r, nilr, err, p := eco.ParseR(text)
			pan(p)
			ev.Acc = p == "" && err == nil && !nilr
			if ev.Acc {
				s, p := eco.RStr(r)
				pan(p)
				ev.Str = codes(s)
				r2, nil2, err2, p2 := eco.ParseR(s)
				pan(p2)
				ev.Reparse = p2 == "" && err2 == nil && !nil2
				ev.Vec = vec(r)
				if ev.Reparse {
					ev.ReVec = vec(r2)
				}
			}
			for _, pd := range pads {
				pt := str(pd.L) + text + str(pd.R)
				pr, niln, errn, pp := eco.ParseR(pt)
				pan(pp)
				pd.Acc = pp == "" && errn == nil && !niln
				pd.Vec = []int{}
				pd.Pvec = []int{}
				if pd.Acc {
					pd.Vec = vec(pr)
				}
				if ev.Acc {
					// the same range against padded witnesses
					for _, w := range wit {
						pw, nilw, errw, ppw := eco.ParseV(str(pd.L) + w + str(pd.R))
						pan(ppw)
						if ppw != "" || errw != nil || nilw {
							pd.Pvec = append(pd.Pvec, -1)
							continue
						}
						c, pc := eco.Contains(r, pw)
						pan(pc)
						pd.Pvec = append(pd.Pvec, b2i(c))
					}
				}
				ev.Pads = append(ev.Pads, pd)
			}
		}
		emit(ev)
	}
}
