package main

// verswf: a (possibly corrupted) VERS string given as bytes, the constraint versions
// the specification extracted from it, the ecosystem the specification routes its
// scheme to, and a probe: log vers.Contains, the validity of every version under that
// ecosystem and the Compare matrix over (versions..., probe) (C17).

type wfCons struct {
	Op string `json:"op"`
	V  string `json:"v"`
}

type versWfEvent struct {
	K          string   `json:"k"`
	Bytes      []int    `json:"bytes"`
	Text       string   `json:"text"` // printable rendering for reports
	Probe      string   `json:"probe"`
	Eco        string   `json:"eco"`
	Cons       []wfCons `json:"cons"`
	Valid      []bool   `json:"valid"`
	ProbeValid bool     `json:"probevalid"`
	M          [][]int  `json:"m"` // over cons versions then probe; empty unless all valid
	Ok         bool     `json:"ok"`
	Err        bool     `json:"err"`
	Msg        string   `json:"msg"`
	Panics     []string `json:"panics"`
}

func init() {
	handlers["verswf"] = func(j Job, emit func(any)) {
		bs := j.ints("bytes")
		raw := make([]byte, len(bs))
		for i, b := range bs {
			raw[i] = byte(b)
		}
		var cons []wfCons
		_ = jsonUnmarshal(j["cons"], &cons)
		ev := versWfEvent{K: "verswf", Bytes: bs, Text: printable(raw), Probe: j.str("probe"), Eco: j.str("eco"),
			Cons: cons, Valid: []bool{}, M: [][]int{}, Panics: []string{}}
		if ev.Cons == nil {
			ev.Cons = []wfCons{}
		}
		ok, err, pan := versContains(string(raw), ev.Probe)
		if pan != "" {
			ev.Panics = append(ev.Panics, "vers.Contains: "+pan)
		}
		ev.Ok, ev.Err = ok, err != nil
		if err != nil {
			ev.Msg = err.Error()
		}
		if eco, found := ecos[ev.Eco]; found {
			var vals []any
			all := true
			for _, c := range cons {
				v, nilv, err, pan := eco.ParseV(c.V)
				good := pan == "" && err == nil && !nilv
				ev.Valid = append(ev.Valid, good)
				all = all && good
				vals = append(vals, v)
			}
			pv, nilv, err, pan := eco.ParseV(ev.Probe)
			ev.ProbeValid = pan == "" && err == nil && !nilv
			if all && ev.ProbeValid {
				vals = append(vals, pv)
				ev.M = make([][]int, len(vals))
				for i := range vals {
					ev.M[i] = make([]int, len(vals))
					for k := range vals {
						ev.M[i][k], _ = eco.Cmp(vals[i], vals[k])
					}
				}
			}
		}
		emit(ev)
	}
}

func printable(b []byte) string {
	out := make([]byte, 0, len(b))
	for _, c := range b {
		if c >= 32 && c <= 126 {
			out = append(out, c)
		} else {
			out = append(out, '?')
		}
	}
	return string(out)
}
