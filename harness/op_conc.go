package main

import (
	"fmt"
	"math/rand"
	"reflect"
	"sort"
	"strings"
	"sync"

	"github.com/alowayed/go-univers/pkg/spec/vers"
)

// conc: purity, history independence and concurrent use (C19).
// One fixed table of operations over shared values is executed
//   phase "seq":  sequentially, in an order derived from the job's seed,
//   phase "conc": by G goroutines that share the ecosystem, version and range values,
// and every call's (key, result) is logged. A deep reflective snapshot of all shared values is taken
// before and after. Different phases / orders are run in different processes by the driver, so that a
// result that depends on call history shows up as two different results for one key.

type concRes struct {
	Key string `json:"key"`
	Res string `json:"res"`
}

type concEvent struct {
	K          string    `json:"k"`
	Eco        string    `json:"eco"`
	Phase      string    `json:"phase"`
	G          int       `json:"g"`
	Results    []concRes `json:"results"`
	SnapBefore string    `json:"snapbefore"`
	SnapAfter  string    `json:"snapafter"`
	Panics     []string  `json:"panics"`
}

// deep renders a value completely, following pointers and reading unexported fields (read-only).
func deep(v reflect.Value, depth int, sb *strings.Builder) {
	if depth > 12 {
		sb.WriteString("...")
		return
	}
	switch v.Kind() {
	case reflect.Ptr, reflect.Interface:
		if v.IsNil() {
			sb.WriteString("nil")
			return
		}
		sb.WriteString("&")
		deep(v.Elem(), depth+1, sb)
	case reflect.Struct:
		sb.WriteString(v.Type().String() + "{")
		for i := 0; i < v.NumField(); i++ {
			sb.WriteString(v.Type().Field(i).Name + ":")
			deep(v.Field(i), depth+1, sb)
			sb.WriteString(",")
		}
		sb.WriteString("}")
	case reflect.Slice, reflect.Array:
		if v.Kind() == reflect.Slice && v.IsNil() {
			sb.WriteString("nil[]")
			return
		}
		fmt.Fprintf(sb, "[len=%d cap=%d:", v.Len(), capOf(v))
		n := v.Len()
		if v.Kind() == reflect.Slice {
			n = v.Cap() // also the part of the backing array beyond len: appends by others show up here
			v = v.Slice(0, n)
		}
		for i := 0; i < n; i++ {
			deep(v.Index(i), depth+1, sb)
			sb.WriteString(",")
		}
		sb.WriteString("]")
	case reflect.Map:
		keys := v.MapKeys()
		strs := make([]string, len(keys))
		for i, k := range keys {
			var kb, vb strings.Builder
			deep(k, depth+1, &kb)
			deep(v.MapIndex(k), depth+1, &vb)
			strs[i] = kb.String() + "=>" + vb.String()
		}
		sort.Strings(strs)
		sb.WriteString("map{" + strings.Join(strs, ",") + "}")
	case reflect.String:
		fmt.Fprintf(sb, "%q", v.String())
	case reflect.Int, reflect.Int8, reflect.Int16, reflect.Int32, reflect.Int64:
		fmt.Fprintf(sb, "%d", v.Int())
	case reflect.Uint, reflect.Uint8, reflect.Uint16, reflect.Uint32, reflect.Uint64, reflect.Uintptr:
		fmt.Fprintf(sb, "%d", v.Uint())
	case reflect.Bool:
		fmt.Fprintf(sb, "%t", v.Bool())
	case reflect.Float32, reflect.Float64:
		fmt.Fprintf(sb, "%g", v.Float())
	case reflect.Func, reflect.Chan, reflect.UnsafePointer:
		sb.WriteString("<" + v.Kind().String() + ">")
	default:
		sb.WriteString("?" + v.Kind().String())
	}
}

func capOf(v reflect.Value) int {
	if v.Kind() == reflect.Slice {
		return v.Cap()
	}
	return v.Len()
}

func snapshot(vals []any) string {
	var sb strings.Builder
	for _, x := range vals {
		deep(reflect.ValueOf(x), 0, &sb)
		sb.WriteString(";")
	}
	return sb.String()
}

type concOp struct {
	key string
	run func() string
}

func init() {
	handlers["conc"] = func(j Job, emit func(any)) {
		eco := ecos[j.str("eco")]
		vtexts := j.strs("versions")
		rtexts := j.strs("ranges")
		vranges := j.strs("versranges") // full "vers:<scheme>/..." strings
		vprobes := j.strs("versprobes")
		phase := j.str("phase")
		seed := int64(j.num("seed"))
		G := j.num("g")
		rounds := j.num("rounds")
		ev := concEvent{K: "conc", Eco: eco.Name, Phase: phase, G: G, Results: []concRes{}, Panics: []string{}}
		var vals, rngs []any
		var shared []any
		for _, t := range vtexts {
			v, nilv, err, pan := eco.ParseV(t)
			if pan != "" || err != nil || nilv {
				continue
			}
			vals = append(vals, v)
			shared = append(shared, v)
		}
		var rkeep []string
		for _, t := range rtexts {
			r, nilr, err, pan := eco.ParseR(t)
			if pan != "" || err != nil || nilr {
				continue
			}
			rngs = append(rngs, r)
			rkeep = append(rkeep, t)
			shared = append(shared, r)
		}
		vstr := make([]string, len(vals))
		for i, v := range vals {
			vstr[i], _ = eco.VStr(v)
		}
		pr := func(pan string) string {
			if pan != "" {
				return "PANIC"
			}
			return ""
		}
		var ops []concOp
		// texts the parser rejects: the error path is an operation like any other (it may leave state behind)
		for _, t := range j.strs("rejects") {
			t := t
			ops = append(ops, concOp{eco.Name + "|NewVersion!|" + t, func() string {
				_, nilv, err, p := eco.ParseV(t)
				return fmt.Sprintf("nil=%t err=%t%s", nilv, err != nil, pr(p))
			}})
		}
		for i := range vals {
			i := i
			ops = append(ops, concOp{eco.Name + "|String|" + vstr[i], func() string { s, p := eco.VStr(vals[i]); return s + pr(p) }})
			ops = append(ops, concOp{eco.Name + "|NewVersion|" + vstr[i], func() string {
				v, nilv, err, p := eco.ParseV(vstr[i])
				if p != "" || err != nil || nilv {
					return "error" + pr(p)
				}
				c, p2 := eco.Cmp(v, vals[i])
				return fmt.Sprintf("ok cmp-with-shared=%d%s", c, pr(p2))
			}})
			for k := range vals {
				k := k
				ops = append(ops, concOp{eco.Name + "|Compare|" + vstr[i] + "|" + vstr[k], func() string { c, p := eco.Cmp(vals[i], vals[k]); return fmt.Sprint(c) + pr(p) }})
			}
			for q := range rngs {
				q := q
				ops = append(ops, concOp{eco.Name + "|Contains|" + rkeep[q] + "|" + vstr[i], func() string { c, p := eco.Contains(rngs[q], vals[i]); return fmt.Sprint(c) + pr(p) }})
			}
		}
		for q := range rngs {
			q := q
			ops = append(ops, concOp{eco.Name + "|RangeString|" + rkeep[q], func() string { s, p := eco.RStr(rngs[q]); return s + pr(p) }})
			ops = append(ops, concOp{eco.Name + "|NewVersionRange|" + rkeep[q], func() string {
				r, nilr, err, p := eco.ParseR(rkeep[q])
				if p != "" || err != nil || nilr {
					return "error" + pr(p)
				}
				out := ""
				for _, v := range vals {
					c, _ := eco.Contains(r, v)
					out += fmt.Sprint(b2i(c))
				}
				return out
			}})
		}
		for _, vr := range vranges {
			for _, vp := range vprobes {
				vr, vp := vr, vp
				ops = append(ops, concOp{"vers|Contains|" + vr + "|" + vp, func() string {
					ok, err := vers.Contains(vr, vp)
					return fmt.Sprintf("%t err=%t", ok, err != nil)
				}})
			}
		}
		// parsing operations are few among the observers; goroutines pick one of them every third call so that
		// concurrent parses (shared scratch state inside a parser) actually overlap
		var parseOps []concOp
		for _, op := range ops {
			if strings.Contains(op.key, "|NewVersion") {
				parseOps = append(parseOps, op)
			}
		}
		rnd := rand.New(rand.NewSource(seed))
		ev.SnapBefore = snapshot(shared)
		if phase == "seq" {
			order := rnd.Perm(len(ops))
			for _, ix := range order {
				ev.Results = append(ev.Results, concRes{ops[ix].key, safeRun(ops[ix].run)})
			}
			// and once more in the same process: a repeated call returns the same result
			for _, ix := range order[:len(order)/3] {
				ev.Results = append(ev.Results, concRes{ops[ix].key, safeRun(ops[ix].run)})
			}
		} else {
			var mu sync.Mutex
			var wg sync.WaitGroup
			for r := 0; r < rounds; r++ {
				start := make(chan struct{})
				for g := 0; g < G; g++ {
					wg.Add(1)
					gs := rnd.Int63()
					go func(gs int64) {
						defer wg.Done()
						gr := rand.New(rand.NewSource(gs))
						local := make([]concRes, 0, 64)
						<-start
						for n := 0; n < 60; n++ {
							op := ops[gr.Intn(len(ops))]
							if len(parseOps) > 0 && n%3 == 0 {
								op = parseOps[gr.Intn(len(parseOps))]
							}
							local = append(local, concRes{op.key, safeRun(op.run)})
						}
						mu.Lock()
						ev.Results = append(ev.Results, local...)
						mu.Unlock()
					}(gs)
				}
				close(start)
				wg.Wait()
			}
		}
		ev.SnapAfter = snapshot(shared)
		emit(ev)
	}
}

func safeRun(f func() string) (s string) {
	defer func() {
		if r := recover(); r != nil {
			s = "PANIC"
		}
	}()
	return f()
}
