package main

// accept: which texts does NewVersion accept.
// range: parse a range text; for every probe log Contains and the signs of
// Compare(probe, bound) for every constraint of the abstract structure (C02, C20).

type acceptEvent struct {
	K     string   `json:"k"`
	Eco   string   `json:"eco"`
	Texts []string `json:"texts"`
	Ok    []bool   `json:"ok"`
	OkR   []bool   `json:"okr"` // the same text accepted as a range
}

type absConstraint struct {
	Op string `json:"op"`
	B  int    `json:"b"`
}

type rangeEvent struct {
	K        string            `json:"k"`
	Eco      string            `json:"eco"`
	Text     string            `json:"text"`
	Groups   [][]absConstraint `json:"groups"`
	Parsed   bool              `json:"parsed"`
	Err      string            `json:"err"`
	Probes   []string          `json:"probes"`
	Contains []bool            `json:"contains"`
	Signs    [][][]int         `json:"signs"` // [probe][group][constraint]
	Panics   []string          `json:"panics"`
}

func init() {
	handlers["accept"] = func(j Job, emit func(any)) {
		eco := ecos[j.str("eco")]
		texts := j.strs("texts")
		ev := acceptEvent{K: "accept", Eco: eco.Name, Texts: texts, Ok: make([]bool, len(texts)), OkR: make([]bool, len(texts))}
		for i, t := range texts {
			_, nilv, err, pan := eco.ParseV(t)
			ev.Ok[i] = pan == "" && err == nil && !nilv
			_, nilr, errr, panr := eco.ParseR(t)
			ev.OkR[i] = panr == "" && errr == nil && !nilr
		}
		emit(ev)
	}
	handlers["range"] = func(j Job, emit func(any)) {
		eco := ecos[j.str("eco")]
		var groups [][]absConstraint
		_ = jsonUnmarshal(j["groups"], &groups)
		bounds := j.strs("bounds")
		probes := j.strs("probes")
		ev := rangeEvent{K: "range", Eco: eco.Name, Text: j.str("text"), Groups: groups, Probes: []string{},
			Contains: []bool{}, Signs: [][][]int{}, Panics: []string{}}
		r, nilr, err, pan := eco.ParseR(ev.Text)
		if pan != "" {
			ev.Panics = append(ev.Panics, "NewVersionRange("+ev.Text+"): "+pan)
		}
		ev.Parsed = pan == "" && err == nil && !nilr
		if err != nil {
			ev.Err = err.Error()
		}
		bvals := make([]any, len(bounds))
		for i, b := range bounds {
			v, nilv, err, pan := eco.ParseV(b)
			if pan == "" && err == nil && !nilv {
				bvals[i] = v
			}
		}
		if ev.Parsed {
			for _, p := range probes {
				v, nilv, err, pan := eco.ParseV(p)
				if pan != "" || err != nil || nilv {
					continue
				}
				c, pan := eco.Contains(r, v)
				if pan != "" {
					ev.Panics = append(ev.Panics, "Contains("+ev.Text+","+p+"): "+pan)
					continue
				}
				sg := make([][]int, len(groups))
				ok := true
				for gi, g := range groups {
					sg[gi] = make([]int, len(g))
					for ci, cst := range g {
						if cst.B < 1 || cst.B > len(bvals) || bvals[cst.B-1] == nil {
							ok = false
							continue
						}
						s, pan := eco.Cmp(v, bvals[cst.B-1])
						if pan != "" {
							ev.Panics = append(ev.Panics, "Compare: "+pan)
							ok = false
						}
						sg[gi][ci] = s
					}
				}
				if !ok {
					continue
				}
				ev.Probes = append(ev.Probes, p)
				ev.Contains = append(ev.Contains, c)
				ev.Signs = append(ev.Signs, sg)
			}
		}
		emit(ev)
	}
}
