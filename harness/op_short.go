package main

// short: parse a shorthand range text and log Contains for every probe (C05, C20).

type shortProbe struct {
	T string `json:"t"`
	P []int  `json:"p"`
}

type shortEvent struct {
	K         string          `json:"k"`
	Eco       string          `json:"eco"`
	Construct string          `json:"construct"`
	Text      string          `json:"text"`
	Ivs       jsonRaw         `json:"ivs"`
	Neg       bool            `json:"neg"`
	Parsed    bool            `json:"parsed"`
	Err       string          `json:"err"`
	Probes    []shortProbe    `json:"probes"`
	Contains  []bool          `json:"contains"`
	Skipped   []string        `json:"skipped"`
	Panics    []string        `json:"panics"`
}

func init() {
	handlers["short"] = func(j Job, emit func(any)) {
		eco := ecos[j.str("eco")]
		var probes []shortProbe
		_ = jsonUnmarshal(j["probes"], &probes)
		var neg bool
		_ = jsonUnmarshal(j["neg"], &neg)
		ev := shortEvent{K: "short", Eco: eco.Name, Construct: j.str("construct"), Text: j.str("text"), Ivs: jsonRaw(j["ivs"]),
			Neg: neg, Probes: []shortProbe{}, Contains: []bool{}, Skipped: []string{}, Panics: []string{}}
		r, nilr, err, pan := eco.ParseR(ev.Text)
		if pan != "" {
			ev.Panics = append(ev.Panics, "NewVersionRange("+ev.Text+"): "+pan)
		}
		ev.Parsed = pan == "" && err == nil && !nilr
		if err != nil {
			ev.Err = err.Error()
		}
		if ev.Parsed {
			for _, p := range probes {
				v, nilv, err, pan := eco.ParseV(p.T)
				if pan != "" || err != nil || nilv {
					ev.Skipped = append(ev.Skipped, p.T)
					continue
				}
				c, pan := eco.Contains(r, v)
				if pan != "" {
					ev.Panics = append(ev.Panics, "Contains("+ev.Text+","+p.T+"): "+pan)
					continue
				}
				ev.Probes = append(ev.Probes, p)
				ev.Contains = append(ev.Contains, c)
			}
		}
		emit(ev)
	}
}
