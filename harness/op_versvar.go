package main

// versvar: a base VERS range and its variant spellings, each evaluated on every probe (C16).

type versVarEvent struct {
	K        string     `json:"k"`
	Scheme   string     `json:"scheme"`
	Base     string     `json:"base"`
	Probes   []string   `json:"probes"`
	BaseRes  []int      `json:"baseres"` // per probe: 0 false, 1 true, 2 error(false), 3 error(true!)
	Variants []string   `json:"variants"`
	Res      [][]int    `json:"res"` // [variant][probe]
	Panics   []string   `json:"panics"`
	Poison   string     `json:"poison"` // a rejected range evaluated between the spellings (its answer is not judged here)
}

func versCode(r, v string, pans *[]string) int {
	ok, err, pan := versContains(r, v)
	if pan != "" {
		*pans = append(*pans, "vers.Contains("+r+","+v+"): "+pan)
		return 9
	}
	c := 0
	if ok {
		c = 1
	}
	if err != nil {
		c += 2
	}
	return c
}

func init() {
	handlers["versvar"] = func(j Job, emit func(any)) {
		ev := versVarEvent{K: "versvar", Scheme: j.str("scheme"), Base: j.str("base"), Probes: j.strs("probes"),
			Variants: j.strs("variants"), Panics: []string{}}
		ev.BaseRes = make([]int, len(ev.Probes))
		for i, p := range ev.Probes {
			ev.BaseRes[i] = versCode(ev.Base, p, &ev.Panics)
		}
		ev.Res = make([][]int, len(ev.Variants))
		// Between the spellings a range that is rejected half-way (valid constraints first, then an invalid version)
		// is evaluated: an answer must not depend on what an earlier, failed call left behind.
		ev.Poison = ev.Base + "|<1.x!y z"
		for k, v := range ev.Variants {
			ev.Res[k] = make([]int, len(ev.Probes))
			for i, p := range ev.Probes {
				if i%2 == 0 && len(ev.Probes) > 0 {
					var ignored []string
					_ = versCode(ev.Poison, ev.Probes[0], &ignored)
				}
				ev.Res[k][i] = versCode(v, p, &ev.Panics)
			}
		}
		emit(ev)
	}
}
