package main

// members: one version list with its full Compare matrix, and for every range text the
// membership vector over that list (C20; also reused for padding/round-trip relations).

type memberRange struct {
	Text     string `json:"text"`
	Convex   bool   `json:"convex"`
	Parsed   bool   `json:"parsed"`
	Contains []bool `json:"contains"`
}

type membersEvent struct {
	K      string        `json:"k"`
	Eco    string        `json:"eco"`
	N      int           `json:"n"`
	Texts  []string      `json:"texts"`
	Part   []int         `json:"part"`
	M      [][]int       `json:"m"`
	Ranges []memberRange `json:"ranges"`
	Panics []string      `json:"panics"`
}

func init() {
	handlers["members"] = func(j Job, emit func(any)) {
		eco := ecos[j.str("eco")]
		texts := j.strs("texts")
		parts := j.ints("part")
		var ranges []memberRange
		_ = jsonUnmarshal(j["ranges"], &ranges)
		ev := membersEvent{K: "members", Eco: eco.Name, Texts: []string{}, Part: []int{}, Ranges: []memberRange{}, Panics: []string{}}
		var vals []any
		for i, t := range texts {
			v, nilv, err, pan := eco.ParseV(t)
			if pan != "" || err != nil || nilv {
				continue
			}
			vals = append(vals, v)
			ev.Texts = append(ev.Texts, t)
			p := 0
			if i < len(parts) {
				p = parts[i]
			}
			ev.Part = append(ev.Part, p)
		}
		ev.N = len(vals)
		ev.M = make([][]int, len(vals))
		for i := range vals {
			ev.M[i] = make([]int, len(vals))
			for k := range vals {
				c, pan := eco.Cmp(vals[i], vals[k])
				if pan != "" {
					ev.Panics = append(ev.Panics, "Compare: "+pan)
				}
				ev.M[i][k] = c
			}
		}
		for _, r := range ranges {
			rv, nilr, err, pan := eco.ParseR(r.Text)
			if pan != "" {
				ev.Panics = append(ev.Panics, "NewVersionRange("+r.Text+"): "+pan)
			}
			r.Parsed = pan == "" && err == nil && !nilr
			r.Contains = make([]bool, 0, len(vals))
			if r.Parsed {
				for i, v := range vals {
					c, pan := eco.Contains(rv, v)
					if pan != "" {
						ev.Panics = append(ev.Panics, "Contains("+r.Text+","+ev.Texts[i]+"): "+pan)
					}
					r.Contains = append(r.Contains, c)
				}
				ev.Ranges = append(ev.Ranges, r)
			}
		}
		emit(ev)
	}
}
