package main

// Coverage-guided input generation for C06 (thorough tier). Go's built-in fuzzer mutates byte strings
// towards new coverage inside go-univers; the function under fuzz is the same runTotal that the recorded
// harness uses. The fuzzer decides nothing: the corpus it accumulates, and any input on which it stops,
// are replayed through `vh run` and judged by the TLA+ trace specification like every other input.
// The function fails on a contract breach only so that the fuzzer keeps (and minimises) that input.

import (
	"os"
	"strings"
	"testing"
	"time"
)

func fuzzSeeds() []string {
	seeds := []string{"1.0.0", "v1.2.3-rc.1+b.5", "1:2.0~rc1-1", ">=1.0.0 <2.0.0 || ^3.1", "[1.0,2.0)", "~> 2.1", "1.0_alpha1-r2",
		"vers:npm/>=1.0.0|<2.0.0", "1.0.0-SNAPSHOT", "==1.2.*", "1!2.0.post1.dev3+local", "dev-main", "2024.01.15", "1.0.x", "*", "v0.0.0-20200101000000-abcdef012345"}
	if p := os.Getenv("VERIF_FUZZ_SEEDS"); p != "" {
		if b, err := os.ReadFile(p); err == nil {
			for _, l := range strings.Split(string(b), "\n") {
				if l != "" {
					seeds = append(seeds, l)
				}
			}
		}
	}
	return seeds
}

func breach(ev totalEvent) string {
	for n, c := range ev.V {
		if c >= 2 {
			return "NewVersion:" + n
		}
	}
	for n, c := range ev.R {
		if c >= 2 {
			return "NewVersionRange:" + n
		}
	}
	for n, c := range ev.VersR {
		if c >= 2 {
			return "vers-range:" + n
		}
	}
	for n, c := range ev.VersP {
		if c >= 2 {
			return "vers-probe:" + n
		}
	}
	if ev.VersW >= 2 {
		return "vers-whole"
	}
	if ev.ObsPan > 0 {
		return "observer panic: " + ev.ObsMsg
	}
	return ""
}

func FuzzTotal(f *testing.F) {
	for _, s := range fuzzSeeds() {
		f.Add([]byte(s))
	}
	f.Fuzz(func(t *testing.T, b []byte) {
		if len(b) > 2048 {
			return
		}
		done := make(chan totalEvent, 1)
		go func() { done <- runTotal(string(b), "fuzz", false) }()
		select {
		case ev := <-done:
			if w := breach(ev); w != "" {
				t.Fatalf("contract breach at %s on %q", w, b)
			}
		case <-time.After(8 * time.Second):
			t.Fatalf("no answer within 8 s on %q", b)
		}
	})
}
