package main

import (
	"bufio"
	"os"
	"path/filepath"
	"strconv"
	"strings"
)

// corpus: read files in the format of Go's fuzzing corpus ("go test fuzz v1" + one []byte("...") line) from
// the given directories and log their inputs, so that they can be replayed as ordinary "total" jobs.
type corpusEvent struct {
	K      string  `json:"k"`
	Dir    string  `json:"dir"`
	Files  int     `json:"files"`
	Inputs [][]int `json:"inputs"`
}

func readCorpusFile(p string) ([]byte, bool) {
	f, err := os.Open(p)
	if err != nil {
		return nil, false
	}
	defer f.Close()
	sc := bufio.NewScanner(f)
	sc.Buffer(make([]byte, 1<<20), 1<<24)
	if !sc.Scan() || !strings.HasPrefix(sc.Text(), "go test fuzz v1") {
		return nil, false
	}
	if !sc.Scan() {
		return nil, false
	}
	l := strings.TrimSpace(sc.Text())
	for _, pre := range []string{"[]byte(", "string("} {
		if strings.HasPrefix(l, pre) && strings.HasSuffix(l, ")") {
			if s, err := strconv.Unquote(l[len(pre) : len(l)-1]); err == nil {
				return []byte(s), true
			}
		}
	}
	return nil, false
}

func init() {
	handlers["corpus"] = func(j Job, emit func(any)) {
		for _, d := range j.strs("dirs") {
			ev := corpusEvent{K: "corpus", Dir: d, Inputs: [][]int{}}
			ents, _ := os.ReadDir(d)
			for _, e := range ents {
				if e.IsDir() {
					continue
				}
				if b, ok := readCorpusFile(filepath.Join(d, e.Name())); ok {
					ev.Files++
					ev.Inputs = append(ev.Inputs, codes(string(b)))
				}
			}
			emit(ev)
		}
	}
}
