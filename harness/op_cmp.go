package main

// cmp: parse two texts and compare them (C03 and seeded reference vectors).

type cmpEvent struct {
	K    string `json:"k"`
	Eco  string `json:"eco"`
	Kind string `json:"kind"`
	A    string `json:"a"`
	B    string `json:"b"`
	Want int    `json:"want"`
	AccA bool   `json:"acca"`
	AccB bool   `json:"accb"`
	Got  int    `json:"got"`
	Rev  int    `json:"rev"`
	Pan  string `json:"panic"`
}

func init() {
	handlers["cmp"] = func(j Job, emit func(any)) {
		eco := ecos[j.str("eco")]
		ev := cmpEvent{K: "cmp", Eco: eco.Name, Kind: j.str("kind"), A: j.str("a"), B: j.str("b"), Want: j.num("want")}
		va, nila, erra, pana := eco.ParseV(ev.A)
		vb, nilb, errb, panb := eco.ParseV(ev.B)
		ev.AccA = pana == "" && erra == nil && !nila
		ev.AccB = panb == "" && errb == nil && !nilb
		ev.Pan = pana + panb
		if ev.AccA && ev.AccB {
			var p1, p2 string
			ev.Got, p1 = eco.Cmp(va, vb)
			ev.Rev, p2 = eco.Cmp(vb, va)
			ev.Pan += p1 + p2
		}
		emit(ev)
	}
}
