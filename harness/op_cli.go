package main

import (
	"bytes"
	"os"
	"os/exec"
	"sync"
	"time"

	"github.com/alowayed/go-univers/pkg/spec/vers"
)

// cli: run the real binary (VERIF_CLI) on an argument vector and, next to it, make the
// library observation for the same arguments in-process (C15, C07, C06). Arguments and
// output travel as byte-code arrays.

type libObs struct {
	Kind  string  `json:"kind"`  // compare | contains | sort | vers | none
	Ok    bool    `json:"ok"`    // the library operation succeeded (all arguments parsed)
	Int   int     `json:"int"`   // compare result
	Bool  bool    `json:"bool"`  // contains result
	Strs  [][]int `json:"strs"`  // sort result: String() of each sorted value, as codes
	Bad   []int   `json:"bad"`   // first argument the library rejected, as codes
	Panic string  `json:"panic"`
}

type cliEvent struct {
	K      string  `json:"k"`
	Tag    string  `json:"tag"`
	Argv   [][]int `json:"argv"`
	Show   string  `json:"show"`
	Stdout []int   `json:"stdout"`
	Stderr []int   `json:"stderr"`
	Exit   int     `json:"exit"`
	Hang   bool    `json:"hang"`
	Lib    libObs  `json:"lib"`
}

type cliJob struct {
	Tag  string  `json:"tag"`
	Argv [][]int `json:"argv"`
}

func libObserve(args []string) (o libObs) {
	defer func() {
		if r := recover(); r != nil {
			o.Panic = "panic in library observation"
		}
	}()
	o.Kind = "none"
	o.Strs = [][]int{}
	o.Bad = []int{}
	if len(args) < 2 {
		return
	}
	name, cmd, rest := args[0], args[1], args[2:]
	if name == "vers" {
		if cmd == "contains" && len(rest) == 2 {
			o.Kind = "vers"
			ok, err := vers.Contains(rest[0], rest[1])
			o.Ok, o.Bool = err == nil, ok
		}
		return
	}
	eco, found := ecos[name]
	if !found {
		return
	}
	parse := func(s string) (any, bool) {
		v, nilv, err, pan := eco.ParseV(s)
		if pan != "" {
			o.Panic = pan
		}
		return v, pan == "" && err == nil && !nilv
	}
	switch {
	case cmd == "compare" && len(rest) == 2:
		o.Kind = "compare"
		a, oka := parse(rest[0])
		b, okb := parse(rest[1])
		if !oka {
			o.Bad = codes(rest[0])
		} else if !okb {
			o.Bad = codes(rest[1])
		}
		if oka && okb {
			o.Ok = true
			o.Int, _ = eco.Cmp(a, b)
		}
	case cmd == "contains" && len(rest) == 2:
		o.Kind = "contains"
		r, nilr, err, pan := eco.ParseR(rest[0])
		okr := pan == "" && err == nil && !nilr
		v, okv := parse(rest[1])
		if !okr {
			o.Bad = codes(rest[0])
		} else if !okv {
			o.Bad = codes(rest[1])
		}
		if okr && okv {
			o.Ok = true
			o.Bool, _ = eco.Contains(r, v)
		}
	case cmd == "sort" && len(rest) >= 1:
		o.Kind = "sort"
		vals := make([]any, 0, len(rest))
		for _, s := range rest {
			v, ok := parse(s)
			if !ok {
				o.Bad = codes(s)
				return
			}
			vals = append(vals, v)
		}
		sorted, pan := eco.SortIdiom(vals)
		if pan != "" {
			o.Panic = pan
			return
		}
		o.Ok = true
		for _, v := range sorted {
			s, _ := eco.VStr(v)
			o.Strs = append(o.Strs, codes(s))
		}
	}
	return
}

func init() {
	handlers["cli"] = func(j Job, emit func(any)) {
		var jobs []cliJob
		_ = jsonUnmarshal(j["runs"], &jobs)
		bin := os.Getenv("VERIF_CLI")
		out := make([]cliEvent, len(jobs))
		var wg sync.WaitGroup
		sem := make(chan struct{}, 16)
		for i := range jobs {
			wg.Add(1)
			sem <- struct{}{}
			go func(i int) {
				defer wg.Done()
				defer func() { <-sem }()
				args := make([]string, len(jobs[i].Argv))
				for k, a := range jobs[i].Argv {
					args[k] = str(a)
				}
				ev := cliEvent{K: "cli", Tag: jobs[i].Tag, Argv: jobs[i].Argv, Show: printable([]byte(joinArgs(args)))}
				cmd := exec.Command(bin, args...)
				var so, se bytes.Buffer
				cmd.Stdout, cmd.Stderr = &so, &se
				done := make(chan error, 1)
				if err := cmd.Start(); err != nil {
					ev.Exit = -1
				} else {
					go func() { done <- cmd.Wait() }()
					select {
					case err := <-done:
						if err != nil {
							if ee, ok := err.(*exec.ExitError); ok {
								ev.Exit = ee.ExitCode()
							} else {
								ev.Exit = -1
							}
						}
					case <-time.After(20 * time.Second):
						_ = cmd.Process.Kill()
						ev.Hang = true
						ev.Exit = -2
					}
				}
				ev.Stdout, ev.Stderr = codes(so.String()), codes(se.String())
				if len(ev.Stderr) > 400 {
					ev.Stderr = ev.Stderr[:400]
				}
				ev.Lib = libObserve(args)
				out[i] = ev
			}(i)
		}
		wg.Wait()
		for _, ev := range out {
			emit(ev)
		}
	}
}

func joinArgs(a []string) string {
	s := ""
	for i, x := range a {
		if i > 0 {
			s += " "
		}
		s += "[" + x + "]"
	}
	return s
}
