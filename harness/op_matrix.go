package main

// matrix: parse every text with the ecosystem's NewVersion, keep the accepted
// ones and log the full Compare matrix over them (C01, C08-C14 reference orders).

type matrixEvent struct {
	K     string   `json:"k"`
	Eco   string   `json:"eco"`
	Tag   string   `json:"tag"`
	N     int      `json:"n"`
	Texts []string `json:"texts"` // accepted texts, in input order
	Part  []int    `json:"part"`  // partition label per accepted text (alpm pkgrel split), else 0
	M     [][]int  `json:"m"`
	Rej   int      `json:"rejected"`
	RejT  []string `json:"rejtexts"`
	Panic []string `json:"panics"`
}

func init() {
	handlers["matrix"] = func(j Job, emit func(any)) {
		eco := ecos[j.str("eco")]
		texts := j.strs("texts")
		parts := j.ints("part")
		ev := matrixEvent{K: "matrix", Eco: eco.Name, Tag: j.str("tag"), Texts: []string{}, Part: []int{}, Panic: []string{}, RejT: []string{}}
		var vals []any
		for i, t := range texts {
			v, nilv, err, pan := eco.ParseV(t)
			if pan != "" {
				ev.Panic = append(ev.Panic, "NewVersion("+t+"): "+pan)
				continue
			}
			if err != nil || nilv {
				ev.Rej++
				ev.RejT = append(ev.RejT, t)
				continue
			}
			vals = append(vals, v)
			ev.Texts = append(ev.Texts, t)
			p := 0
			if i < len(parts) {
				p = parts[i]
			}
			ev.Part = append(ev.Part, p)
		}
		ev.N = len(vals)
		ev.M = make([][]int, len(vals))
		for i := range vals {
			row := make([]int, len(vals))
			for k := range vals {
				c, pan := eco.Cmp(vals[i], vals[k])
				if pan != "" {
					ev.Panic = append(ev.Panic, "Compare("+ev.Texts[i]+","+ev.Texts[k]+"): "+pan)
					c = 99
				}
				row[k] = c
			}
			ev.M[i] = row
		}
		emit(ev)
	}
}
