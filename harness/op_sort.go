package main

// sortset: one multiset of versions, its Compare matrix, and for each given ordering of it
// the result of the documented library idiom slices.SortFunc(vs, V.Compare) (C07).

type sortSetEvent struct {
	K      string     `json:"k"`
	Eco    string     `json:"eco"`
	Items  []string   `json:"items"`
	Part   []int      `json:"part"`
	M      [][]int    `json:"m"`
	Perms  [][]int    `json:"perms"`
	Outs   [][]string `json:"outs"`
	Panics []string   `json:"panics"`
}

func init() {
	handlers["sortset"] = func(j Job, emit func(any)) {
		eco := ecos[j.str("eco")]
		items := j.strs("items")
		var perms [][]int
		_ = jsonUnmarshal(j["perms"], &perms)
		ev := sortSetEvent{K: "sortset", Eco: eco.Name, Items: items, Part: j.ints("part"), Perms: perms, Outs: [][]string{}, Panics: []string{}}
		vals := make([]any, len(items))
		for i, t := range items {
			v, nilv, err, pan := eco.ParseV(t)
			if pan != "" || err != nil || nilv {
				ev.Panics = append(ev.Panics, "item not accepted: "+t)
				emit(ev)
				return
			}
			vals[i] = v
		}
		ev.M = make([][]int, len(vals))
		for i := range vals {
			ev.M[i] = make([]int, len(vals))
			for k := range vals {
				ev.M[i][k], _ = eco.Cmp(vals[i], vals[k])
			}
		}
		for _, p := range perms {
			in := make([]any, len(p))
			for i, ix := range p {
				// fresh values for every ordering: the idiom sorts the caller's slice in place
				v, _, _, _ := eco.ParseV(items[ix-1])
				in[i] = v
			}
			sorted, pan := eco.SortIdiom(in)
			if pan != "" {
				ev.Panics = append(ev.Panics, pan)
				ev.Outs = append(ev.Outs, []string{})
				continue
			}
			out := make([]string, len(sorted))
			for i, v := range sorted {
				out[i], _ = eco.VStr(v)
			}
			ev.Outs = append(ev.Outs, out)
		}
		emit(ev)
	}
}
