package main

import (
	"strings"
	"time"
)

// total: feed one byte string to every entry point and log one outcome code per entry point (C06).
//   0 ok (non-nil value, nil error)   1 err (nil value, non-nil error)   2 both   3 none   4 panic   5 hang
// vers: 0 (result, nil)   1 (false, err)   2 (true, err)   4 panic   5 hang
// Accepted values are additionally observed (Compare / Contains / String against witnesses); the number of
// panics in those observations is logged. Long inputs carry their length and the slowest call in ms.

type totalEvent struct {
	K      string         `json:"k"`
	Tag    string         `json:"tag"`
	Bytes  []int          `json:"bytes"` // the input (first 64 bytes for long inputs)
	N      int            `json:"n"`     // input length
	Show   string         `json:"show"`
	V      map[string]int `json:"v"`
	R      map[string]int `json:"r"`
	VersR  map[string]int `json:"versr"` // input as the range of scheme s (prefixed "vers:<s>/")
	VersP  map[string]int `json:"versp"` // input as the probe of scheme s
	VersW  int            `json:"versw"` // input as the whole vers range string
	ObsPan int            `json:"obspanics"`
	ObsMsg string         `json:"obsmsg"`
	MaxMs  int            `json:"maxms"`
	Slow   string         `json:"slow"`
}

var versSchemes = []string{"alpine", "cargo", "deb", "gem", "generic", "golang", "maven", "npm", "nuget", "pypi", "rpm"}
var versProbeText = map[string]string{"alpine": "1.0", "cargo": "1.0.0", "deb": "1.0", "gem": "1.0.0", "generic": "1.0.0", "golang": "v1.0.0",
	"maven": "1.0", "npm": "1.0.0", "nuget": "1.0.0", "pypi": "1.0", "rpm": "1.0"}
// witnesses: ordinary versions plus a very low and a very high one, so that whatever bounds an accepted range
// holds, some witness passes its first constraints and reaches the later ones
var witnessTexts = []string{"1.0.0", "1.0", "2.0.0", "1.2.3", "v1.0.0", "0.1.0", "0", "0.0.0", "99999.0.0", "99999", "v99999.0.0", "1.0.0-alpha",
	"1!0.1", "1:1.0-1", "9223372036854775807.0.0", "9223372036854775807"}

func classify(nilv bool, err error, pan string) int {
	switch {
	case pan != "":
		return 4
	case !nilv && err == nil:
		return 0
	case nilv && err != nil:
		return 1
	case !nilv && err != nil:
		return 2
	default:
		return 3
	}
}

// onlyEcos, when non-empty, restricts runTotal to those ecosystems' own entry points (and skips the VERS calls):
// used for inputs that were generated for one ecosystem's grammar
var onlyEcos map[string]bool

func runTotal(s string, tag string, long bool) totalEvent {
	ev := totalEvent{K: "total", Tag: tag, N: len(s), V: map[string]int{}, R: map[string]int{}, VersR: map[string]int{}, VersP: map[string]int{}}
	head := s
	if len(head) > 64 {
		head = head[:64]
	}
	ev.Bytes = codes(head)
	ev.Show = printable([]byte(head))
	timed := func(name string, f func()) {
		t0 := time.Now()
		f()
		ms := int(time.Since(t0) / time.Millisecond)
		// a slow call is measured again (twice) before it counts: wall-clock time on a loaded machine
		// must not turn into a verdict; the minimum of the measurements is logged
		for retry := 0; retry < 2 && ms > 1000; retry++ {
			t1 := time.Now()
			f()
			if m := int(time.Since(t1) / time.Millisecond); m < ms {
				ms = m
			}
		}
		if ms > ev.MaxMs {
			ev.MaxMs, ev.Slow = ms, name
		}
	}
	obs := func(pan string) {
		if pan != "" {
			ev.ObsPan++
			if ev.ObsMsg == "" {
				ev.ObsMsg = pan
			}
		}
	}
	for _, eco := range ecoList {
		if len(onlyEcos) > 0 && !onlyEcos[eco.Name] {
			continue
		}
		var wit []any
		for _, w := range witnessTexts {
			if v, nilv, err, pan := eco.ParseV(w); pan == "" && err == nil && !nilv {
				wit = append(wit, v)
			}
		}
		var v any
		var vok bool
		timed("NewVersion:"+eco.Name, func() {
			val, nilv, err, pan := eco.ParseV(s)
			ev.V[eco.Name] = classify(nilv, err, pan)
			v, vok = val, ev.V[eco.Name] == 0
		})
		if vok {
			timed("observe:"+eco.Name, func() {
				_, p := eco.VStr(v)
				obs(p)
				_, p = eco.Cmp(v, v)
				obs(p)
				for _, w := range wit {
					_, p = eco.Cmp(v, w)
					obs(p)
					_, p = eco.Cmp(w, v)
					obs(p)
				}
			})
		}
		timed("NewVersionRange:"+eco.Name, func() {
			r, nilr, err, pan := eco.ParseR(s)
			ev.R[eco.Name] = classify(nilr, err, pan)
			if ev.R[eco.Name] == 0 {
				_, p := eco.RStr(r)
				obs(p)
				for _, w := range wit {
					_, p = eco.Contains(r, w)
					obs(p)
				}
				if vok {
					_, p = eco.Contains(r, v)
					obs(p)
				}
			}
		})
	}
	vc := func(r, p string) int {
		ok, err, pan := versContains(r, p)
		switch {
		case pan != "":
			return 4
		case err == nil:
			return 0
		case !ok:
			return 1
		default:
			return 2
		}
	}
	if len(onlyEcos) > 0 {
		return ev
	}
	for _, sc := range versSchemes {
		timed("vers-range:"+sc, func() { ev.VersR[sc] = vc("vers:"+sc+"/"+s, versProbeText[sc]) })
		timed("vers-probe:"+sc, func() { ev.VersP[sc] = vc("vers:"+sc+"/>="+versProbeText[sc], s) })
		if !long {
			// also as one constraint among valid ones
			timed("vers-mixed:"+sc, func() {
				// after a lower bound that already contains the probe, and after an exact match of the probe
				for _, lead := range []string{">=", "="} {
					if c := vc("vers:"+sc+"/"+lead+versProbeText[sc]+"|"+s, versProbeText[sc]); c > ev.VersR[sc] {
						ev.VersR[sc] = c
					}
				}
			})
		}
	}
	timed("vers-whole", func() { ev.VersW = vc(s, "1.0.0") })
	return ev
}

// deadline: far above the budget of TotalitySem.tla, so that a budget overrun is still measured and only a
// real hang is cut off
func deadline(n int) time.Duration {
	if n <= 4096 {
		return 15 * time.Second
	}
	return 150 * time.Second
}

func init() {
	handlers["total"] = func(j Job, emit func(any)) {
		var inputs [][]int
		_ = jsonUnmarshal(j["inputs"], &inputs)
		tag := j.str("tag")
		onlyEcos = map[string]bool{}
		for _, e := range j.strs("only") {
			onlyEcos[e] = true
		}
		// long inputs: {unit, n, prefix, suffix}
		type longIn struct {
			Unit   []int `json:"unit"`
			N      int   `json:"n"`
			Prefix []int `json:"prefix"`
			Suffix []int `json:"suffix"`
		}
		var longs []longIn
		_ = jsonUnmarshal(j["longs"], &longs)
		hung := false
		run := func(s string, long bool) {
			if hung {
				// a hung call keeps spinning in its goroutine; one hang already decides the run, so the
				// remaining inputs of this batch are not started
				return
			}
			done := make(chan totalEvent, 1)
			go func() { done <- runTotal(s, tag, long) }()
			select {
			case ev := <-done:
				emit(ev)
			case <-time.After(deadline(len(s))):
				ev := totalEvent{K: "total", Tag: tag, N: len(s), Bytes: codes(s[:min(len(s), 64)]), Show: printable([]byte(s[:min(len(s), 64)])),
					V: map[string]int{"*": 5}, R: map[string]int{}, VersR: map[string]int{}, VersP: map[string]int{}, MaxMs: int(deadline(len(s)) / time.Millisecond), Slow: "deadline"}
				emit(ev)
				hung = true
			}
		}
		for _, in := range inputs {
			run(str(in), false)
		}
		for _, l := range longs {
			u := str(l.Unit)
			if u == "" {
				continue
			}
			s := str(l.Prefix) + strings.Repeat(u, l.N/len(u)) + str(l.Suffix)
			run(s, true)
		}
	}
}
